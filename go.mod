module github.com/remieven/ysgo/verifx

go 1.22.0

toolchain go1.23.5

require (
	github.com/antlr4-go/antlr/v4 v4.13.1
	github.com/remieven/ysgo v0.0.0
)

require (
	golang.org/x/exp v0.0.0-20240808152545-0cdaa3abc0fa // indirect
	golang.org/x/tools v0.29.0
)

replace github.com/remieven/ysgo => /repo
