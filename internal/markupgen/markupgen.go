// Package markupgen is engine E3: constructive models of marked-up lines. A line is built from
// items (text chunk, escaped bracket, open / close / close-all / self-closing marker with typed
// properties, replacement marker, character prefix); the expected plain text and attribute ranges
// follow from the construction - nothing is parsed to obtain the expectation.
package markupgen

import (
	"fmt"
	"sort"
	"strconv"
	"strings"
	"unicode"

	"github.com/remieven/ysgo/markup"
)

// PVal is a typed property value.
type PVal struct {
	Kind string // int | float | bool | string
	I    int
	F    float64
	B    bool
	S    string
}

func (v PVal) String() string {
	switch v.Kind {
	case "int":
		return "int:" + strconv.Itoa(v.I)
	case "float":
		return "float:" + strconv.FormatFloat(v.F, 'g', -1, 64)
	case "bool":
		return "bool:" + strconv.FormatBool(v.B)
	}
	return "string:" + strconv.Quote(v.S)
}

// Prop is a property as written and as expected.
type Prop struct {
	Name string
	Src  string // source of the value
	Val  PVal
}

// ExpAttr is an expected attribute (positions in runes of the untrimmed plain text).
type ExpAttr struct {
	Name  string
	Props map[string]PVal
	Pos   int
	End   int
	// Unconstrained: attribute of a replacement marker (neither required nor forbidden).
	Unconstrained bool
}

type openMarker struct {
	name  string
	props map[string]PVal
	pos   int
	seq   int
}

// Line is a line under construction.
type Line struct {
	Src       strings.Builder
	Plain     []rune
	open      []openMarker
	Attrs     []ExpAttr
	Ambiguous string // non-empty: the construction has no single meaning under the property; do not check
	seq       int
	selfs     []selfClose
	lastText  bool // previous item was a text chunk
	HasPrefix bool
	prefixLen int
	// SameName is set when two markers of the same name were open at the same time: which close
	// belongs to which open is then not fixed (first-in-first-out and last-in-first-out pairings
	// are both accepted).
	SameName bool
	closes   []closeEvent
}

type selfClose struct {
	attrIndex   int
	pos         int
	prevTextEnd bool // previous item was a text chunk ending in a non-space
	noTrim      bool // trimwhitespace=false given
}

type closeEvent struct {
	name string // "" = close all
	pos  int
}

// Text appends a plain text chunk (no brackets, no backslash, no colon).
func (l *Line) Text(s string) {
	l.Src.WriteString(s)
	l.Plain = append(l.Plain, []rune(s)...)
	l.lastText = true
}

// Escape appends an escaped bracket: b is '[' or ']'.
func (l *Line) Escape(b rune) {
	l.Src.WriteString(`\` + string(b))
	l.Plain = append(l.Plain, b)
	l.lastText = false
}

// Prefix starts the line with a character name prefix "Name: ".
func (l *Line) Prefix(name string) {
	l.Src.WriteString(name + ": ")
	l.Plain = append(l.Plain, []rune(name+": ")...)
	l.Attrs = append(l.Attrs, ExpAttr{Name: "character", Props: map[string]PVal{"name": {Kind: "string", S: name}}, Pos: 0, End: len([]rune(name + ": "))})
	l.HasPrefix = true
	l.prefixLen = len(l.Plain)
	l.lastText = true
}

func propsSrc(props []Prop) string {
	var b strings.Builder
	for _, p := range props {
		b.WriteString(" " + p.Name + "=" + p.Src)
	}
	return b.String()
}

func propsMap(props []Prop) map[string]PVal {
	m := map[string]PVal{}
	for _, p := range props {
		m[p.Name] = p.Val
	}
	return m
}

// OpenNames returns the names of the markers currently open, oldest first.
func (l *Line) OpenNames() []string {
	var out []string
	for _, o := range l.open {
		out = append(out, o.name)
	}
	return out
}

// Open appends an open marker. shorthand: written [name=value ...] with the first property named
// like the marker.
func (l *Line) Open(name string, props []Prop, shorthand bool) {
	for _, o := range l.open {
		if o.name == name {
			l.SameName = true
		}
	}
	if shorthand && len(props) > 0 && props[0].Name == name {
		l.Src.WriteString("[" + name + "=" + props[0].Src + propsSrc(props[1:]) + "]")
	} else {
		l.Src.WriteString("[" + name + propsSrc(props) + "]")
	}
	l.seq++
	l.open = append(l.open, openMarker{name: name, props: propsMap(props), pos: len(l.Plain), seq: l.seq})
	l.lastText = false
}

// Close appends a close-by-name marker for the oldest open marker of that name (first-in-first-out
// pairing; the alternative pairing is computed by AltAttrs when SameName is set).
func (l *Line) Close(name string) bool {
	for i, o := range l.open {
		if o.name == name {
			l.Src.WriteString("[/" + name + "]")
			l.Attrs = append(l.Attrs, ExpAttr{Name: name, Props: o.props, Pos: o.pos, End: len(l.Plain)})
			l.open = append(l.open[:i:i], l.open[i+1:]...)
			l.closes = append(l.closes, closeEvent{name: name, pos: len(l.Plain)})
			l.lastText = false
			return true
		}
	}
	return false
}

// CloseAll appends [/].
func (l *Line) CloseAll() {
	l.Src.WriteString("[/]")
	for _, o := range l.open {
		l.Attrs = append(l.Attrs, ExpAttr{Name: o.name, Props: o.props, Pos: o.pos, End: len(l.Plain)})
	}
	l.open = nil
	l.closes = append(l.closes, closeEvent{pos: len(l.Plain)})
	l.lastText = false
}

// SelfClosing appends [name props /].
func (l *Line) SelfClosing(name string, props []Prop) {
	noTrim := false
	for _, p := range props {
		if p.Name == "trimwhitespace" && p.Val.Kind == "bool" && !p.Val.B {
			noTrim = true
		}
	}
	prevTextEnd := l.lastText && len(l.Plain) > 0 && !unicode.IsSpace(l.Plain[len(l.Plain)-1])
	l.Src.WriteString("[" + name + propsSrc(props) + " /]")
	l.Attrs = append(l.Attrs, ExpAttr{Name: name, Props: propsMap(props), Pos: len(l.Plain), End: len(l.Plain)})
	l.selfs = append(l.selfs, selfClose{attrIndex: len(l.Attrs) - 1, pos: len(l.Plain), prevTextEnd: prevTextEnd, noTrim: noTrim})
	l.lastText = false
}

// Replacement appends a replacement marker written src that must be replaced by text.
func (l *Line) Replacement(src, text string) {
	l.Src.WriteString(src)
	l.Plain = append(l.Plain, []rune(text)...)
	l.lastText = false
}

// Finish checks the construction for ambiguity and returns whether all markers are closed.
func (l *Line) Finish() (closed bool) {
	if l.HasPrefix && l.prefixLen < len(l.Plain) && unicode.IsSpace(l.Plain[l.prefixLen]) {
		l.Ambiguous = "further whitespace after the character prefix (part of the prefix or of the text?)"
	}
	for _, s := range l.selfs {
		if s.noTrim || s.prevTextEnd {
			continue
		}
		if s.pos < len(l.Plain) && unicode.IsSpace(l.Plain[s.pos]) {
			// followed by whitespace: is everything before it whitespace (then the result is the same)?
			allSpace := true
			for _, r := range l.Plain[:s.pos] {
				if !unicode.IsSpace(r) {
					allSpace = false
				}
			}
			if !allSpace {
				l.Ambiguous = "self-closing marker between whitespace (one following space may or may not be trimmed)"
			}
		}
	}
	return len(l.open) == 0
}

// Expected is the expectation after the final trimming of the text.
type Expected struct {
	Text  string
	Attrs []FinalAttr
}

// FinalAttr is an attribute with its range in the trimmed text.
type FinalAttr struct {
	Name          string
	Props         map[string]PVal
	Pos, Len      int
	Enclosed      string
	Unconstrained bool
}

func finalize(plain []rune, attrs []ExpAttr) Expected {
	lead := 0
	for lead < len(plain) && unicode.IsSpace(plain[lead]) {
		lead++
	}
	end := len(plain)
	for end > lead && unicode.IsSpace(plain[end-1]) {
		end--
	}
	trimmed := plain[lead:end]
	clamp := func(x int) int {
		x -= lead
		if x < 0 {
			x = 0
		}
		if x > len(trimmed) {
			x = len(trimmed)
		}
		return x
	}
	ex := Expected{Text: string(trimmed)}
	for _, a := range attrs {
		s, e := clamp(a.Pos), clamp(a.End)
		ex.Attrs = append(ex.Attrs, FinalAttr{Name: a.Name, Props: a.Props, Pos: s, Len: e - s, Enclosed: string(trimmed[s:e]), Unconstrained: a.Unconstrained})
	}
	return ex
}

// Expected returns the expectation under first-in-first-out pairing of same-name markers.
func (l *Line) Expected() Expected { return finalize(l.Plain, l.Attrs) }

// AttrKey renders an attribute canonically.
func AttrKey(name string, props map[string]PVal, pos, length int, enclosed string) string {
	var ks []string
	for k, v := range props {
		ks = append(ks, k+"="+v.String())
	}
	sort.Strings(ks)
	return fmt.Sprintf("%s{%s}@%d+%d=%q", name, strings.Join(ks, ","), pos, length, enclosed)
}

// Keys returns the sorted canonical keys of the constrained attributes.
func (e Expected) Keys() []string {
	var out []string
	for _, a := range e.Attrs {
		if !a.Unconstrained {
			out = append(out, AttrKey(a.Name, a.Props, a.Pos, a.Len, a.Enclosed))
		}
	}
	sort.Strings(out)
	return out
}

// FromReal converts a real property value.
func FromReal(v markup.Value) PVal {
	switch v.ValueType {
	case markup.ValueTypeInteger:
		return PVal{Kind: "int", I: v.IntegerValue}
	case markup.ValueTypeFloat:
		return PVal{Kind: "float", F: v.FloatValue}
	case markup.ValueTypeBool:
		return PVal{Kind: "bool", B: v.BoolValue}
	}
	return PVal{Kind: "string", S: v.StringValue}
}

// RealKeys renders the attributes of a real parse result canonically; names lists the attribute
// names to ignore (replacement markers). A panic of TextForAttribute is returned.
func RealKeys(res *markup.ParseResult, ignore map[string]bool) (keys []string, panicked string) {
	defer func() {
		if r := recover(); r != nil {
			panicked = fmt.Sprint(r)
		}
	}()
	for _, a := range res.Attributes {
		if ignore[a.Name] {
			continue
		}
		props := map[string]PVal{}
		for k, v := range a.Properties {
			props[k] = FromReal(v)
		}
		keys = append(keys, AttrKey(a.Name, props, a.Position, a.Length, res.TextForAttribute(a)))
	}
	sort.Strings(keys)
	return keys, ""
}

// ReplacementNames are the markers replaced by text.
var ReplacementNames = map[string]bool{"select": true, "plural": true, "ordinal": true, "nomarkup": true}
