package yarncore

import (
	"strings"
)

// ParenPolicy says how expressions are parenthesised.
type ParenPolicy int

const (
	ParenMinimal   ParenPolicy = iota // only where the precedence table of the property needs them
	ParenFull                         // every compound sub-expression
	ParenRedundant                    // minimal plus redundant ones around operands and the whole
)

// Layout says how a program is written down. The zero value is the canonical layout: 4 spaces
// per level, LF, no blank or comment lines, symbolic operators, minimal parentheses, if-bodies
// not indented, one reader.
type Layout struct {
	Unit     string   // indentation unit, default four spaces
	Indents  []string // explicit indentation string per depth (overrides Unit)
	EOL      string   // default "\n"
	Paren    ParenPolicy
	Spell    map[string]int // operator -> index into Spellings
	IfIndent bool           // indent the bodies of if clauses
	// Gaps[r][i] are complete physical lines inserted before line i of reader r.
	Gaps map[int]map[int][]string
	// Trailing[r][i] is a comment appended to line i of reader r.
	Trailing map[int]map[int]string
	// Pad adds extra spaces inside commands at the named sites: "open" (after <<), "close"
	// (before >>), "kw" (after the keyword), "op" (around operators / between arguments).
	Pad map[string]int
}

// RLine is one logical line of a rendered reader.
type RLine struct {
	Depth      int
	Text       string
	InBody     bool // between --- and ===
	CanComment bool // a trailing // comment may follow
	Kind       string
}

func (l *Layout) indent(depth int) string {
	if depth < len(l.Indents) {
		return l.Indents[depth]
	}
	u := l.Unit
	if u == "" {
		u = "    "
	}
	return strings.Repeat(u, depth)
}

func (l *Layout) pad(site string) string {
	if l == nil || l.Pad == nil {
		return ""
	}
	return strings.Repeat(" ", l.Pad[site])
}

func (l *Layout) spell(op string, override int) string {
	sp := Spellings[op]
	if sp == nil {
		return op
	}
	i := override
	if i == 0 && l != nil && l.Spell != nil {
		i = l.Spell[op]
	}
	if i < 0 || i >= len(sp) {
		i = 0
	}
	return sp[i]
}

// ---- expressions ----

func exprPrec(e *Expr) int {
	switch e.K {
	case EBin:
		return Precedence(e.Op)
	case ENeg, ENot:
		return 6
	case ENum:
		if e.N < 0 {
			return 6
		}
	}
	return 7
}

func renderExpr(e *Expr, pol ParenPolicy, l *Layout) string {
	switch e.K {
	case ENum:
		if e.S != "" {
			return e.S
		}
		if e.N < 0 || (e.N == 0 && 1/e.N < 0) {
			return "-" + fmtNum(-e.N)
		}
		return fmtNum(e.N)
	case EBool:
		if e.B {
			return "true"
		}
		return "false"
	case EStr:
		return quoteYarn(e.S)
	case EVar:
		return "$" + e.S
	case ENull:
		return "null"
	case ERaw:
		return e.S
	case EParen:
		return "(" + renderExpr(e.L, pol, l) + ")"
	case ECall:
		args := make([]string, len(e.Args))
		for i, a := range e.Args {
			args[i] = renderExpr(a, pol, l)
		}
		return e.S + "(" + strings.Join(args, ","+l.pad("op")+" ") + ")"
	case ENeg, ENot:
		op := "-"
		if e.K == ENot {
			op = l.spell("not", e.Spell)
			if op == "not" {
				op = "not "
			}
		}
		in := renderExpr(e.L, pol, l)
		need := exprPrec(e.L) < 6 || e.L.K == ERaw
		if e.K == ENeg && !need && strings.HasPrefix(in, "-") {
			need = true // "--x" would still lex as two minus signs, but keep it readable and unambiguous
		}
		if pol == ParenFull {
			need = e.L.K == EBin || e.L.K == ENeg || e.L.K == ENot || e.L.K == ERaw || need
		}
		if need {
			in = "(" + in + ")"
		}
		out := op + in
		if pol == ParenFull {
			return out
		}
		return out
	case EBin:
		p := Precedence(e.Op)
		ls, rs := renderExpr(e.L, pol, l), renderExpr(e.R, pol, l)
		lneed := exprPrec(e.L) < p || e.L.K == ERaw
		rneed := exprPrec(e.R) <= p || e.R.K == ERaw
		switch pol {
		case ParenFull:
			lneed = lneed || e.L.K == EBin || e.L.K == ENeg || e.L.K == ENot
			rneed = rneed || e.R.K == EBin || e.R.K == ENeg || e.R.K == ENot
		case ParenRedundant:
			lneed, rneed = true, true
		}
		if lneed {
			ls = "(" + ls + ")"
		}
		if rneed {
			rs = "(" + rs + ")"
		}
		sp := " " + l.pad("op")
		return ls + sp + l.spell(e.Op, e.Spell) + sp + rs
	}
	return "?"
}

// RenderExpr prints an expression under a layout.
func RenderExpr(e *Expr, l *Layout) string {
	pol := ParenMinimal
	if l != nil {
		pol = l.Paren
	}
	s := renderExpr(e, pol, l)
	if pol == ParenRedundant {
		s = "(" + s + ")"
	}
	return s
}

// ---- statements ----

func renderLineSpec(ls *LineSpec, l *Layout) string {
	var b strings.Builder
	for _, p := range ls.Parts {
		if p.E != nil {
			b.WriteString("{" + RenderExpr(p.E, l) + "}")
		} else {
			b.WriteString(p.Src)
		}
	}
	if ls.Cond != nil {
		b.WriteString(" <<" + l.pad("open") + "if " + l.pad("kw") + RenderExpr(ls.Cond, l) + l.pad("close") + ">>")
	}
	for _, t := range ls.Tags {
		b.WriteString(" #" + t)
	}
	if ls.Comment != "" {
		b.WriteString(" // " + ls.Comment)
	}
	return b.String()
}

func cmd(l *Layout, inner string) string {
	return "<<" + l.pad("open") + inner + l.pad("close") + ">>"
}

func renderBody(body []*Stmt, depth int, l *Layout, out *[]RLine) {
	add := func(d int, text, kind string, canComment bool) {
		*out = append(*out, RLine{Depth: d, Text: text, InBody: true, CanComment: canComment, Kind: kind})
	}
	for _, s := range body {
		switch s.K {
		case SLine:
			add(depth, renderLineSpec(s.Line, l), "line", s.Line.Comment == "")
		case SOptions:
			for _, o := range s.Opts {
				add(depth, "-> "+renderLineSpec(o.Line, l), "option", o.Line.Comment == "")
				renderBody(o.Body, depth+1, l, out)
			}
		case SIf:
			bd := depth
			if l != nil && l.IfIndent {
				bd = depth + 1
			}
			for i, c := range s.Clauses {
				switch {
				case i == 0:
					add(depth, cmd(l, "if "+l.pad("kw")+RenderExpr(c.Cond, l)), "if", true)
				case c.Cond != nil:
					add(depth, cmd(l, "elseif "+l.pad("kw")+RenderExpr(c.Cond, l)), "elseif", true)
				default:
					add(depth, cmd(l, "else"), "else", true)
				}
				renderBody(c.Body, bd, l, out)
			}
			add(depth, cmd(l, "endif"), "endif", true)
		case SSet:
			op := s.AssOp
			if op == "" {
				op = "="
			}
			if op == "=" {
				op = l.spell("=", 0)
			}
			sp := " " + l.pad("op")
			add(depth, cmd(l, "set "+l.pad("kw")+"$"+s.Var+sp+op+sp+RenderExpr(s.E, l)), "set", true)
		case SDeclare:
			sp := " " + l.pad("op")
			add(depth, cmd(l, "declare "+l.pad("kw")+"$"+s.Var+sp+l.spell("=", 0)+sp+RenderExpr(s.E, l)), "declare", true)
		case SJump:
			add(depth, cmd(l, "jump "+l.pad("jumpkw")+s.Target), "jump", true)
		case SJumpExpr:
			add(depth, cmd(l, "jump "+l.pad("jumpkw")+"{"+RenderExpr(s.E, l)+"}"), "jumpexpr", true)
		case SStop:
			add(depth, cmd(l, "stop"), "stop", true)
		case SCall:
			args := make([]string, len(s.Args))
			for i, a := range s.Args {
				args[i] = RenderExpr(a, l)
			}
			add(depth, cmd(l, "call "+l.pad("kw")+s.Fn+"("+strings.Join(args, ", ")+")"), "call", true)
		case SCommand:
			var tb strings.Builder
			tb.WriteString(s.CmdLead + s.Cmd)
			for i, a := range s.CmdArgs {
				sep := " " + l.pad("op")
				if i < len(s.CmdSeps) && s.CmdSeps[i] != "" {
					sep = s.CmdSeps[i]
				}
				tb.WriteString(sep)
				if a.E != nil {
					tb.WriteString("{" + RenderExpr(a.E, l) + "}")
				} else {
					tb.WriteString(a.Word)
				}
			}
			tb.WriteString(s.CmdTrail)
			text := cmd(l, tb.String())
			for _, t := range s.CmdTags {
				text += " #" + t
			}
			add(depth, text, "command", true)
		}
	}
}

// Readers returns the nodes of each reader.
func (p *Program) Readers() [][]*Node {
	if len(p.Split) == 0 {
		return [][]*Node{p.Nodes}
	}
	var out [][]*Node
	i := 0
	for _, n := range p.Split {
		out = append(out, p.Nodes[i:i+n])
		i += n
	}
	if i < len(p.Nodes) {
		out = append(out, p.Nodes[i:])
	}
	return out
}

// Lines returns the logical lines of each reader.
func Lines(p *Program, l *Layout) [][]RLine {
	var readers [][]RLine
	for _, nodes := range p.Readers() {
		var lines []RLine
		for _, n := range nodes {
			lines = append(lines, RLine{Text: "title: " + n.Title, Kind: "header"})
			if n.Tracking != "" {
				lines = append(lines, RLine{Text: "tracking: " + n.Tracking, Kind: "header"})
			}
			for _, h := range n.Headers {
				lines = append(lines, RLine{Text: h[0] + ": " + h[1], Kind: "header"})
			}
			lines = append(lines, RLine{Text: "---", Kind: "bodystart"})
			renderBody(n.Body, 0, l, &lines)
			lines = append(lines, RLine{Text: "===", Kind: "bodyend", InBody: true})
		}
		readers = append(readers, lines)
	}
	return readers
}

// Emit writes logical lines down under a layout; r is the reader index (for Gaps / Trailing).
func Emit(lines []RLine, l *Layout, r int) string {
	eol := "\n"
	if l != nil && l.EOL != "" {
		eol = l.EOL
	}
	var lay Layout
	if l != nil {
		lay = *l
	}
	var b strings.Builder
	for i, ln := range lines {
		if g := lay.Gaps[r]; g != nil {
			for _, extra := range g[i] {
				b.WriteString(extra + eol)
			}
		}
		b.WriteString(lay.indent(ln.Depth) + ln.Text)
		if t := lay.Trailing[r]; t != nil && t[i] != "" {
			b.WriteString(" // " + t[i])
		}
		b.WriteString(eol)
	}
	return b.String()
}

// Render returns the text of every reader of the program under the layout (nil = canonical).
func Render(p *Program, l *Layout) []string {
	var out []string
	for r, lines := range Lines(p, l) {
		out = append(out, Emit(lines, l, r))
	}
	return out
}
