package yarncore

import (
	"errors"
	"fmt"
	"sort"
	"strings"

	"github.com/remieven/ysgo"
	"github.com/remieven/ysgo/variable"
	"github.com/remieven/ysgo/verifx/internal/explore"
)

// FuncSpec describes a host function registered with AddFunction (raw, no conversion bridge).
type FuncSpec struct {
	Name   string
	Result *Value // nil: returns no value
	Fails  bool   // returns an error
	Echo   bool   // returns its first argument
	// Impl, if set, is the pure behaviour of the function, shared by the model and the real
	// registration: result, whether there is a result, whether it fails.
	Impl func(args []Value) (res Value, has bool, fail bool)
}

// CmdSpec describes a host command registered with AddCommand whose channel is already
// completed when the handler returns.
type CmdSpec struct {
	Name  string
	Fails bool
	// Pending: the handler returns a channel on which nothing is ever sent.
	Pending bool
	// Deferred: the handler returns an empty channel; the walker completes it (with an error if
	// Fails) after the first poll that answered "waiting".
	Deferred bool
	// ByClose: completion is reported by closing the channel instead of sending nil on it.
	ByClose bool
}

// Deferred completions: channels handed out by deferred handlers and not yet completed. The
// walkers are single-threaded; the list belongs to the runner being walked.
type pendingCompletion struct {
	ch      chan error
	fails   bool
	byClose bool
}

var deferredCompletions []pendingCompletion

// CompleteDeferred completes every command whose handler deferred its completion.
func CompleteDeferred() {
	for _, p := range deferredCompletions {
		switch {
		case p.fails:
			p.ch <- errHost
		case p.byClose:
			close(p.ch)
		default:
			p.ch <- nil
		}
	}
	deferredCompletions = nil
}

// HostSpec is a host configuration from which both the model host and the real registrations
// are derived.
type HostSpec struct {
	Funcs []FuncSpec
	Cmds  []CmdSpec
	Vars  map[string]Value
	// ModelFuncs are further model functions (with access to the machine: handlers that write variables); their real
	// counterparts are registered by the check (WalkOpts.Setup).
	ModelFuncs map[string]ModelFunc
}

// Model builds the model host.
func (hs *HostSpec) Model() *Host {
	h := &Host{Funcs: map[string]ModelFunc{}, Cmds: map[string]ModelCmd{}, Vars: map[string]Value{}}
	if hs == nil {
		return h
	}
	for k, v := range hs.Vars {
		h.Vars[k] = v
	}
	for _, f := range hs.Funcs {
		f := f
		h.Funcs[f.Name] = func(m *Machine, args []Value) FuncResult {
			m.Log = append(m.Log, "fn:"+f.Name+"("+ArgsString(args)+")")
			switch {
			case f.Impl != nil:
				res, has, fail := f.Impl(args)
				return FuncResult{V: res, HasValue: has, Err: fail}
			case f.Fails:
				return FuncResult{Err: true}
			case f.Echo && len(args) > 0:
				return FuncResult{V: args[0], HasValue: true}
			case f.Result != nil:
				return FuncResult{V: *f.Result, HasValue: true}
			}
			return FuncResult{}
		}
	}
	for name, f := range hs.ModelFuncs {
		h.Funcs[name] = f
	}
	for _, c := range hs.Cmds {
		c := c
		if c.Pending {
			if h.Pending == nil {
				h.Pending = map[string]bool{}
			}
			h.Pending[c.Name] = true
			continue
		}
		if c.Deferred {
			if h.Deferred == nil {
				h.Deferred = map[string]bool{}
			}
			h.Deferred[c.Name] = c.Fails
			continue
		}
		h.Cmds[c.Name] = func(m *Machine, args []Value) bool {
			m.Log = append(m.Log, "cmd:"+c.Name+"("+ArgsString(args)+")")
			return c.Fails
		}
	}
	return h
}

var errHost = errors.New("host handler failed")

// Install registers the real handlers; they append to log in the model's format.
func (hs *HostSpec) Install(dr *ysgo.DialogueRunner, log *[]string) {
	if hs == nil {
		return
	}
	for _, f := range hs.Funcs {
		f := f
		dr.AddFunction(f.Name, func(args []*variable.Value) (*variable.Value, error) {
			margs := RealArgs(args)
			*log = append(*log, "fn:"+f.Name+"("+ArgsString(margs)+")")
			switch {
			case f.Impl != nil:
				res, has, fail := f.Impl(margs)
				if fail {
					return nil, errHost
				}
				if !has {
					return nil, nil
				}
				return ToVar(res), nil
			case f.Fails:
				return nil, errHost
			case f.Echo && len(args) > 0:
				return args[0], nil
			case f.Result != nil:
				return ToVar(*f.Result), nil
			}
			return nil, nil
		})
	}
	for _, c := range hs.Cmds {
		c := c
		dr.AddCommand(c.Name, func(args []*variable.Value) <-chan error {
			*log = append(*log, "cmd:"+c.Name+"("+ArgsString(RealArgs(args))+")")
			ch := make(chan error, 1)
			switch {
			case c.Pending:
			case c.Deferred:
				deferredCompletions = append(deferredCompletions, pendingCompletion{ch, c.Fails, c.ByClose})
			case c.Fails:
				ch <- errHost
			case c.ByClose:
				close(ch)
			default:
				ch <- nil
			}
			return ch
		})
	}
}

// WalkOpts bound and configure the exploration of all paths of one program.
type WalkOpts struct {
	MaxSteps     int   // yields (returned elements / errors) per path
	MaxJumps     int   // jumps per path
	ArgVariants  []int // arguments passed to Next at steps that do not follow an option group
	ArgProduct   bool  // explore every argument variant at every such step (else: cycle through them)
	Flags        Flags
	CompareStore bool // compare the storer contents with the model store after every step
	CompareLog   bool // compare the handler invocation log after every step
	AfterEnd     int  // further Next calls after the first end marker, all must report the end (C12)
	AfterEndArgs []int
	// StateKey, if set, returns a canonical dump of the whole state of the real side (runner,
	// storer). It lets the exploration after the end stop as soon as a call leaves the state
	// unchanged: the runner being deterministic in its state, every longer sequence of calls then
	// behaves like a prefix already explored. Without it (or when the state does change) every
	// sequence of AfterEnd arguments is executed on a fresh replay.
	StateKey     func(r *Real, storer variable.Storer) string
	AfterError   int  // further Next calls after the first error: must return without panic (C06)
	StrictErrors bool // errors of the model must be errors of the implementation at the same step
	// ContinueAfterError: a path does not end at its first error: the walk goes on in lock-step with the statement that
	// follows the failing one (as the pinned tree does; C10 states it for commands), except after an option group that
	// could not be prepared. Disagreements after an error carry the clause prefix "after-error-".
	ContinueAfterError bool
	Seed               string
	NewStorer          func() variable.Storer // nil: default in-memory storer created by the runner
	// Host, if set, is called after every compared step that is not an end or an error: the host
	// may act between two calls of Next (e.g. write to the storer and to the model store). It may
	// use the chooser; DevBudget bounds its costly (ChooseDev) choices per path (<0: unbounded).
	Host      func(c *explore.Chooser, step int, m *Machine, storer variable.Storer)
	DevBudget int
	// Refusals > 0: between two compared steps the host may perform operations the library must refuse (RestoreAt of a
	// snapshot that names an unknown node, registration of values that are no functions) - at most Refusals per path
	// (deviation budget). A refused operation changes nothing: the walk goes on in lock-step with the unchanged model.
	Refusals int
	// Setup, if set, registers further handlers on every fresh real runner.
	Setup func(r *Real, log *[]string)
	// Step, if set, is called after every compared step for additional oracles.
	Step func(m *Machine, r *Real, mo *Obs, ro RealObs) string
}

// Mismatch describes the first disagreement on a path.
type Mismatch struct {
	Clause string
	Path   []int    // choices made at option groups
	Args   []int    // every argument passed to Next, in order
	Trace  []string // real observations up to and including the failing step
	Notes  []string // host actions performed between the calls
	Detail string
}

// WalkStats counts what a walk covered.
type WalkStats struct {
	Paths       int64
	Steps       int64
	Truncated   int64 // paths cut by MaxSteps / MaxJumps
	EndsReached int64
	Errors      int64
	Outcomes    map[string]struct{}
}

// ModelPaths walks the model alone and reports whether any path diverges (a jump cycle that never
// yields) and how many paths there are within the bounds.
func ModelPaths(p *Program, hs *HostSpec, o WalkOpts) (paths int64, diverges bool) {
	explore.Run(explore.Options{Budget: -1}, func(c *explore.Chooser) {
		m := NewMachine(p, hs.Model())
		if o.MaxJumps > 0 {
			m.MaxJumps = o.MaxJumps
		}
		paths++
		ob := m.Start()
		for step := 0; step < o.MaxSteps; step++ {
			switch ob.K {
			case ODiverge:
				if m.Diverged {
					diverges = true
				}
				return
			case OEnd:
				return
			case OOptions:
				ob = ob.Next(c.Choose(len(ob.Opts), "opt"))
			default:
				ob = ob.Next(0)
			}
		}
	})
	return
}

func storeDiff(m *Machine, st variable.Storer) string {
	got := st.GetValues()
	var keys []string
	for k := range m.Store {
		keys = append(keys, k)
	}
	sort.Strings(keys)
	for _, k := range keys {
		want := m.Store[k]
		gv, ok := got[k]
		if !ok {
			return fmt.Sprintf("variable %s: expected %s, storer has none", k, want)
		}
		g, _ := FromVar(&gv)
		if !g.Equal(want) {
			return fmt.Sprintf("variable %s: expected %s, storer has %s", k, want, g)
		}
		if single, ok := st.GetValue(k); ok {
			if s, _ := FromVar(single); !s.Equal(want) {
				return fmt.Sprintf("variable %s: GetValue reports %s, expected %s", k, s, want)
			}
		} else {
			return fmt.Sprintf("variable %s: GetValue reports nothing, expected %s", k, want)
		}
	}
	for k := range got {
		if _, ok := m.Store[k]; !ok {
			gv := got[k]
			g, _ := FromVar(&gv)
			return fmt.Sprintf("variable %s: storer has %s, expected none", k, g)
		}
	}
	return ""
}

// refusedOps are host operations every version of the library must refuse (C07: a snapshot naming an unknown node; C16:
// values that are no functions). accepted reports that the operation returned without error.
var refusedOps = []struct {
	name string
	do   func(r *Real, m *Machine) (accepted bool, pan string)
}{
	{"RestoreAt(snapshot of another script: unknown node, other variables and visit counts)", func(r *Real, m *Machine) (accepted bool, pan string) {
		one, yes, text := 41.0, true, "other"
		snap := &ysgo.Snapshot{CurrentNode: "no such node", Variables: map[string]variable.Value{"zz": {Number: &one}}, VisitedNodes: map[string]int{"no such node": 3, "nope": 1}}
		for _, n := range m.P.Nodes {
			snap.VisitedNodes[n.Title] = 5
		}
		for k, v := range m.Store { // every variable of the dialogue under another type
			switch v.K {
			case VNum:
				snap.Variables[k] = variable.Value{String: &text}
			case VBool:
				snap.Variables[k] = variable.Value{Number: &one}
			default:
				snap.Variables[k] = variable.Value{Boolean: &yes}
			}
		}
		defer func() {
			if p := recover(); p != nil {
				pan = fmt.Sprint(p)
			}
		}()
		return r.DR.RestoreAt(snap) == nil, ""
	}},
	{"ConvertAndAddFunction of values that are no functions under new and existing names", func(r *Real, m *Machine) (accepted bool, pan string) {
		defer func() {
			if p := recover(); p != nil {
				pan = fmt.Sprint(p)
			}
		}()
		for _, name := range []string{"ghost", "nofn", "probe", "note", "visited", "visited_count", "string", "number"} {
			if r.DR.ConvertAndAddFunction(name, 42) == nil || r.DR.ConvertAndAddFunction(name, func(x []int) {}) == nil {
				return true, ""
			}
		}
		return false, ""
	}},
	{"ConvertAndAddCommand of values that are no commands under new and existing names", func(r *Real, m *Machine) (accepted bool, pan string) {
		defer func() {
			if p := recover(); p != nil {
				pan = fmt.Sprint(p)
			}
		}()
		for _, name := range []string{"ghostcmd", "nocmd", "act", "beep", "later", "hang", "wait"} {
			if r.DR.ConvertAndAddCommand(name, "not a function") == nil || r.DR.ConvertAndAddCommand(name, func() int { return 0 }) == nil {
				return true, ""
			}
		}
		return false, ""
	}},
}

// Walk runs every path of the program on a fresh real runner in lock-step with a fresh model.
// It returns the first mismatch in path order (shortest choices first), or nil.
func Walk(p *Program, srcs []string, hs *HostSpec, o WalkOpts) (*Mismatch, WalkStats) {
	st := WalkStats{Outcomes: map[string]struct{}{}}
	var found *Mismatch
	if len(o.ArgVariants) == 0 {
		o.ArgVariants = []int{0}
	}
	if len(o.AfterEndArgs) == 0 {
		o.AfterEndArgs = []int{0}
	}
	pathIndex := 0
	budget := -1
	if o.Host != nil {
		budget = o.DevBudget
	}
	if o.Refusals > 0 {
		if o.Host != nil && o.DevBudget >= 0 {
			budget = o.DevBudget + o.Refusals
		} else if o.Host == nil {
			budget = o.Refusals
		}
	}
	explore.Run(explore.Options{Budget: budget}, func(c *explore.Chooser) {
		if found != nil {
			c.Stop()
			return
		}
		st.Paths++
		pathIndex++
		m := NewMachine(p, hs.Model())
		if o.MaxJumps > 0 {
			m.MaxJumps = o.MaxJumps
		}
		seed := o.Seed
		if seed == "" {
			seed = "abc"
		}
		type run struct {
			r      *Real
			storer variable.Storer
			log    []string
		}
		newRun := func() (*run, error, string) {
			deferredCompletions = nil
			x := &run{}
			if o.NewStorer != nil {
				x.storer = o.NewStorer()
			} else {
				x.storer = variable.NewInMemoryStorer()
			}
			if hs != nil {
				for k, v := range hs.Vars {
					switch v.K {
					case VNum:
						x.storer.SetNumberValue(k, v.N)
					case VBool:
						x.storer.SetBooleanValue(k, v.B)
					case VStr:
						x.storer.SetStringValue(k, v.S)
					}
				}
			}
			r, err, pan := NewReal(srcs, seed, x.storer)
			if err != nil || pan != "" {
				return nil, err, pan
			}
			x.r = r
			hs.Install(r.DR, &x.log)
			if o.Setup != nil {
				o.Setup(r, &x.log)
			}
			return x, nil, ""
		}
		x, err, pan := newRun()
		var path, args []int
		var trace []string
		sawError := false
		fail := func(clause, detail string) {
			if sawError {
				clause = "after-error-" + clause
			}
			found = &Mismatch{Clause: clause, Path: append([]int{}, path...), Args: append([]int{}, args...), Trace: append([]string{}, trace...), Detail: detail, Notes: append([]string{}, m.Notes...)}
			c.Stop()
		}
		if pan != "" {
			fail("load-panic", "NewDialogueRunner panicked: "+pan)
			return
		}
		if err != nil {
			fail("load-error", "NewDialogueRunner refused a well-formed script: "+err.Error())
			return
		}
		r, storer := x.r, x.storer
		rlog := &x.log
		// refuse lets the host perform one operation the library must refuse (see WalkOpts.Refusals); false: a violation was recorded
		refuse := func(step int) bool {
			if o.Refusals <= 0 {
				return true
			}
			if k := c.ChooseDev(1+len(refusedOps), "refused-op"); k > 0 {
				op := refusedOps[k-1]
				m.Notes = append(m.Notes, fmt.Sprintf("after step %d: %s (refused)", step, op.name))
				trace = append(trace, op.name)
				accepted, pan := op.do(r, m)
				if pan != "" {
					fail("refused-op-panic", fmt.Sprintf("after step %d: %s panicked: %s", step, op.name, pan))
					return false
				}
				if accepted {
					fail("refused-op-accepted", fmt.Sprintf("after step %d: %s reported success", step, op.name))
					return false
				}
				if o.CompareStore {
					if d := storeDiff(m, storer); d != "" {
						fail("refused-op-store", fmt.Sprintf("after step %d: %s was refused and yet changed the variables: %s", step, op.name, d))
						return false
					}
				}
			}
			return true
		}
		if !refuse(-1) {
			return
		}
		mo := m.Start()
		afterOptions := false
		for step := 0; ; step++ {
			if step >= o.MaxSteps || mo.K == ODiverge {
				st.Truncated++
				break
			}
			// choose the argument for this call
			arg := 0
			if afterOptions {
				arg = path[len(path)-1]
			} else if o.ArgProduct {
				arg = o.ArgVariants[c.Choose(len(o.ArgVariants), "arg")]
			} else {
				arg = o.ArgVariants[(step+pathIndex)%len(o.ArgVariants)]
			}
			args = append(args, arg)
			ro := r.Next(arg)
			CompleteDeferred() // the host completes deferred commands between two calls
			st.Steps++
			trace = append(trace, ro.String())
			if ro.Panic != "" {
				fail("panic", fmt.Sprintf("Next(%d) panicked at step %d: %s (model expected %s)", arg, step, ro.Panic, mo.Describe()))
				return
			}
			if mo.K == OError && !o.StrictErrors && ro.K != OError {
				// the model says this statement is faulty but the property at hand does not
				// demand an error here: stop comparing this path
				st.Truncated++
				break
			}
			if d := Diff(mo, ro, o.Flags); d != "" {
				clause := "trace"
				if mo.K == OError || ro.K == OError {
					clause = "error-class"
				}
				fail(clause, fmt.Sprintf("step %d, Next(%d): %s", step, arg, d))
				return
			}
			if o.CompareLog {
				if a, b := strings.Join(m.Log, ";"), strings.Join(*rlog, ";"); a != b {
					fail("handler-log", fmt.Sprintf("step %d: handler invocations expected [%s], got [%s]", step, a, b))
					return
				}
			}
			if o.CompareStore {
				if d := storeDiff(m, storer); d != "" {
					fail("store", fmt.Sprintf("step %d: %s", step, d))
					return
				}
			}
			if o.Step != nil {
				if d := o.Step(m, r, mo, ro); d != "" {
					fail("step-oracle", fmt.Sprintf("step %d: %s", step, d))
					return
				}
			}
			if mo.K == OEnd {
				st.EndsReached++
				// absorbing end (C12): any argument, nothing happens any more
				afterEnd := func(x *run, a int, i int, atEnd string) bool {
					ro := x.r.Next(a)
					st.Steps++
					if ro.Panic != "" {
						fail("after-end-panic", fmt.Sprintf("Next(%d) after the end panicked: %s", a, ro.Panic))
						return false
					}
					if ro.K != OEnd {
						fail("after-end", fmt.Sprintf("call %d after the end, Next(%d): expected end, got %s", i+1, a, ro.String()))
						return false
					}
					// the ended dialogue stays what it is: a snapshot taken after further calls is the snapshot taken at the end
					if now := snapshotString(x.r); now != atEnd {
						fail("after-end-snapshot", fmt.Sprintf("call %d after the end, Next(%d): a snapshot taken now (%s) differs from the one taken when the end was reported (%s)", i+1, a, now, atEnd))
						return false
					}
					if al, bl := strings.Join(m.Log, ";"), strings.Join(x.log, ";"); o.CompareLog && al != bl {
						fail("after-end-log", fmt.Sprintf("handler invoked after the end (call %d, Next(%d)): expected [%s], got [%s]", i+1, a, al, bl))
						return false
					}
					if o.CompareStore {
						if d := storeDiff(m, x.storer); d != "" {
							fail("after-end-store", fmt.Sprintf("variables changed after the end (call %d, Next(%d)): %s", i+1, a, d))
							return false
						}
					}
					return true
				}
				if o.AfterEnd > 0 && o.StateKey != nil {
					k0 := o.StateKey(r, storer)
					atEnd0 := snapshotString(r)
					changed := false
					for _, a := range o.AfterEndArgs {
						args = append(args, a)
						trace = append(trace, fmt.Sprintf("after-end Next(%d)", a))
						if !afterEnd(x, a, 0, atEnd0) {
							return
						}
						if o.StateKey(r, storer) != k0 {
							changed = true
							break
						}
					}
					if !changed {
						break // every longer sequence behaves like one of these
					}
					args = args[:len(args)-1]
				}
				if o.AfterEnd > 0 {
					// every sequence of AfterEnd arguments, each on a fresh replay of this path
					base := append([]int{}, args...)
					n := len(o.AfterEndArgs)
					total := 1
					for i := 0; i < o.AfterEnd; i++ {
						total *= n
					}
					for seq := 0; seq < total && found == nil; seq++ {
						y, err, pan := newRun()
						if err != nil || pan != "" {
							fail("load-error", "second load of the same script failed")
							return
						}
						for _, a := range base {
							y.r.Next(a)
						}
						args = append([]int{}, base...)
						atEndY := snapshotString(y.r)
						for i, q := 0, seq; i < o.AfterEnd; i, q = i+1, q/n {
							a := o.AfterEndArgs[q%n]
							args = append(args, a)
							if !afterEnd(y, a, i, atEndY) {
								return
							}
						}
					}
				}
				break
			}
			if mo.K == OError && o.ContinueAfterError && !mo.OptsFailed && step+1 < o.MaxSteps {
				st.Errors++
				sawError = true
				mo = mo.Next(0)
				afterOptions = false
				continue
			}
			if mo.K == OError {
				st.Errors++
				// after an error the runner must stay usable: further calls return
				waits := 0
				for i := 0; i < o.AfterError; i++ {
					ro := r.Next(0)
					CompleteDeferred()
					st.Steps++
					trace = append(trace, ro.String())
					if ro.Panic != "" {
						fail("after-error-panic", fmt.Sprintf("call %d after an error panicked: %s", i+1, ro.Panic))
						return
					}
					if ro.Waiting {
						waits++
					}
				}
				if o.AfterError >= 3 && waits == o.AfterError {
					// every deferred command is completed between the calls: a runner that keeps
					// answering "waiting" is stuck on a command that has already reported
					fail("unusable-after-error", fmt.Sprintf("after the error every one of %d further calls answered ErrWaitingForCommandCompletion although no command is pending", o.AfterError))
					return
				}
				break // what follows an error is not fixed by the properties
			}
			if o.Host != nil {
				o.Host(c, step, m, storer)
			}
			if !refuse(step) {
				return
			}
			if mo.K == OOptions {
				ch := c.Choose(len(mo.Opts), "opt")
				path = append(path, ch)
				mo = mo.Next(ch)
				afterOptions = true
			} else {
				mo = mo.Next(0)
				afterOptions = false
			}
		}
		st.Outcomes[strings.Join(trace, "→")] = struct{}{}
	})
	return found, st
}

// FreeOpts configure FreeWalk.
type FreeOpts struct {
	MaxSteps  int
	Seed      string
	Setup     func(r *Real, log *[]string) // register handlers
	NewStorer func() variable.Storer
	AfterEnd  int // further calls after the first end marker
	// ErrorsStop: stop a path at the first error (else continue up to MaxSteps).
	ErrorsStop bool
	// Suffix, if set, is appended to the trace of every path (e.g. the final store).
	Suffix func(r *Real, storer variable.Storer) string
}

// FreeResult is what FreeWalk observed.
type FreeResult struct {
	LoadErr   error
	LoadPanic string
	Panic     string // first panic, with its path
	PanicPath []int
	PanicArgs []int
	Traces    map[string]string // path (choices) -> trace of observations
	Paths     int64
	Steps     int64
	Errors    int64
}

// FreeWalk drives the real runner alone along every choice sequence (choices taken from the option
// counts the runner itself reports), recording the trace of each path. Only "returns without
// panicking" is checked here; callers compare the traces.
func FreeWalk(srcs []string, o FreeOpts) *FreeResult {
	res := &FreeResult{Traces: map[string]string{}}
	seed := o.Seed
	if seed == "" {
		seed = "abc"
	}
	explore.Run(explore.Options{Budget: -1}, func(c *explore.Chooser) {
		if res.Panic != "" || res.LoadErr != nil || res.LoadPanic != "" {
			c.Stop()
			return
		}
		var storer variable.Storer
		if o.NewStorer != nil {
			storer = o.NewStorer()
		}
		deferredCompletions = nil
		r, err, pan := NewReal(srcs, seed, storer)
		if pan != "" {
			res.LoadPanic = pan
			c.Stop()
			return
		}
		if err != nil {
			res.LoadErr = err
			c.Stop()
			return
		}
		var log []string
		if o.Setup != nil {
			o.Setup(r, &log)
		}
		res.Paths++
		var path, args []int
		var trace []string
		arg := 0
		ended := 0
		for step := 0; step < o.MaxSteps; step++ {
			args = append(args, arg)
			ro := r.Next(arg)
			CompleteDeferred()
			res.Steps++
			if ro.Panic != "" {
				res.Panic = fmt.Sprintf("Next(%d) panicked at step %d: %s; trace so far %v", arg, step, ro.Panic, trace)
				res.PanicPath, res.PanicArgs = append([]int{}, path...), append([]int{}, args...)
				c.Stop()
				return
			}
			trace = append(trace, ro.String())
			arg = 0
			switch ro.K {
			case OOptions:
				arg = c.Choose(len(ro.Opts), "opt")
				path = append(path, arg)
			case OEnd:
				ended++
				if ended > o.AfterEnd {
					step = o.MaxSteps
				}
			case OError:
				res.Errors++
				if o.ErrorsStop {
					step = o.MaxSteps
				}
			}
		}
		key := fmt.Sprint(path)
		res.Traces[key] = strings.Join(trace, " → ") + " | log=" + strings.Join(log, ";")
		if o.Suffix != nil {
			res.Traces[key] += " | " + o.Suffix(r, storer)
		}
	})
	return res
}
