// Package yarncore is engine E1: a mini-language describing the supported core of Yarn as an AST
// that is independent of the implementation's own tree, a renderer that turns a program plus a
// layout into script text, a reference interpreter, and a lock-step driver for the real runner.
package yarncore

import (
	"fmt"
	"math"
	"strconv"
	"strings"
)

// ---- values ----

type VKind int

const (
	VNum VKind = iota + 1
	VBool
	VStr
)

// Value is a Yarn value of the model.
type Value struct {
	K VKind
	N float64
	B bool
	S string
}

func Num(n float64) Value { return Value{K: VNum, N: n} }
func Bool(b bool) Value   { return Value{K: VBool, B: b} }
func Str(s string) Value  { return Value{K: VStr, S: s} }

// Equal compares two values (numbers with ==, NaN equal to NaN so that an implementation is not
// pinned to a NaN payload).
func (v Value) Equal(o Value) bool {
	if v.K != o.K {
		return false
	}
	switch v.K {
	case VNum:
		return v.N == o.N || (math.IsNaN(v.N) && math.IsNaN(o.N))
	case VBool:
		return v.B == o.B
	case VStr:
		return v.S == o.S
	}
	return true
}

func (v Value) String() string {
	switch v.K {
	case VNum:
		if v.N == 0 {
			return "num:0" // the sign of zero is not part of the comparison
		}
		return "num:" + strconv.FormatFloat(v.N, 'g', -1, 64)
	case VBool:
		return "bool:" + strconv.FormatBool(v.B)
	case VStr:
		return "str:" + strconv.Quote(v.S)
	}
	return "none"
}

// Display is the display form of the property C04: integral numbers without a decimal point,
// other numbers in shortest round-trip decimal, booleans as True/False, strings verbatim. It is
// only used for numbers whose display is unambiguous (DisplayUnambiguous).
func (v Value) Display() string {
	switch v.K {
	case VNum:
		if v.N == math.Trunc(v.N) && math.Abs(v.N) < 1e15 {
			return strconv.FormatFloat(v.N, 'f', 0, 64)
		}
		return strconv.FormatFloat(v.N, 'f', -1, 64)
	case VBool:
		if v.B {
			return "True"
		}
		return "False"
	case VStr:
		return v.S
	}
	return ""
}

// DisplayUnambiguous tells whether the display form of v is fixed by the property: finite
// numbers that are 0 or of magnitude in [1e-4, 1e15), and not negative zero.
func (v Value) DisplayUnambiguous() bool {
	if v.K != VNum {
		return true
	}
	if math.IsNaN(v.N) || math.IsInf(v.N, 0) {
		return false
	}
	if v.N == 0 {
		return !math.Signbit(v.N)
	}
	a := math.Abs(v.N)
	return a >= 1e-4 && a < 1e15
}

// ---- expressions ----

type EKind int

const (
	ENum EKind = iota + 1
	EBool
	EStr
	EVar
	ENeg
	ENot
	EBin
	ECall
	ENull
	EParen // explicit (redundant) parentheses, layout only
	ERaw   // raw expression text with a known classification (fault injection)
)

// Expr is an expression of the mini-language.
type Expr struct {
	K    EKind
	N    float64
	B    bool
	S    string // string literal, variable name (without $), function name, raw text
	Op   string // canonical operator: * / % + - <= >= < > == != and or xor
	L, R *Expr
	Args []*Expr
	// Spell selects an alternative spelling of the operator / of not (layout only).
	Spell int
	// RawErr: an ERaw expression whose evaluation must be an error (else: not modelled).
	RawErr bool
}

func ENumber(n float64) *Expr { return &Expr{K: ENum, N: n} }

// ENumberLit is a non-negative number literal written exactly as text (digits, optionally a point and
// digits): its value is the decimal meaning of the text.
func ENumberLit(text string) *Expr {
	n, err := strconv.ParseFloat(text, 64)
	if err != nil {
		panic("ENumberLit: " + text)
	}
	return &Expr{K: ENum, N: n, S: text}
}
func EBoolean(b bool) *Expr                  { return &Expr{K: EBool, B: b} }
func EString(s string) *Expr                 { return &Expr{K: EStr, S: s} }
func EVariable(name string) *Expr            { return &Expr{K: EVar, S: name} }
func ENegate(e *Expr) *Expr                  { return &Expr{K: ENeg, L: e} }
func ENotOf(e *Expr) *Expr                   { return &Expr{K: ENot, L: e} }
func EBinary(op string, l, r *Expr) *Expr    { return &Expr{K: EBin, Op: op, L: l, R: r} }
func ECallOf(fn string, args ...*Expr) *Expr { return &Expr{K: ECall, S: fn, Args: args} }
func ENullLit() *Expr                        { return &Expr{K: ENull} }
func EParens(e *Expr) *Expr                  { return &Expr{K: EParen, L: e} }

// ERawOf is an expression given as text; mustErr says whether evaluating it must fail.
func ERawOf(text string, mustErr bool) *Expr { return &Expr{K: ERaw, S: text, RawErr: mustErr} }

// Operators in the order of the property statement's precedence table (tightest first).
var BinaryOps = []string{"*", "/", "%", "+", "-", "<=", ">=", "<", ">", "==", "!=", "and", "or", "xor"}

// Precedence of the property statement: unary 6, * / % 5, + - 4, comparisons 3, equality 2, and/or/xor 1.
func Precedence(op string) int {
	switch op {
	case "*", "/", "%":
		return 5
	case "+", "-":
		return 4
	case "<=", ">=", "<", ">":
		return 3
	case "==", "!=":
		return 2
	case "and", "or", "xor":
		return 1
	}
	return 0
}

// Spellings lists the spellings of each operator accepted by the language.
var Spellings = map[string][]string{
	"*": {"*"}, "/": {"/"}, "%": {"%"}, "+": {"+"}, "-": {"-"},
	"<=": {"<=", "lte"}, ">=": {">=", "gte"}, "<": {"<", "lt"}, ">": {">", "gt"},
	"==": {"==", "is", "eq"}, "!=": {"!=", "neq"},
	"and": {"and", "&&"}, "or": {"or", "||"}, "xor": {"xor", "^"},
	"not": {"not", "!"},
	"=":   {"=", "to"},
}

// ---- statements ----

type SKind int

const (
	SLine SKind = iota + 1
	SOptions
	SIf
	SSet
	SDeclare
	SJump
	SJumpExpr
	SStop
	SCall
	SCommand
)

// Part is a piece of a line: literal text given as source form and expected text, or an expression.
type Part struct {
	Src  string // what is written in the script (with escapes)
	Want string // what must appear in the returned text
	E    *Expr
}

// LineSpec is the text of a line or option.
type LineSpec struct {
	Parts   []Part
	Cond    *Expr // <<if ...>> line condition (options)
	Tags    []string
	Comment string // trailing // comment text (without //), layout only
}

// TextLine builds a LineSpec from a plain text without special characters.
func TextLine(s string) *LineSpec { return &LineSpec{Parts: []Part{{Src: s, Want: s}}} }

// CmdArg is a word or an inline expression of a generic command.
type CmdArg struct {
	Word string
	E    *Expr
}

// Clause of an if statement; Cond nil means else.
type Clause struct {
	Cond *Expr
	Body []*Stmt
}

// Option of a shortcut option group.
type Option struct {
	Line *LineSpec
	Body []*Stmt
}

// Stmt is a statement.
type Stmt struct {
	K       SKind
	Line    *LineSpec
	Opts    []*Option
	Clauses []*Clause
	Var     string // set / declare
	AssOp   string // = += -= *= /= %=
	E       *Expr  // set / declare value, jump expression
	Target  string // jump
	Fn      string // call
	Args    []*Expr
	Cmd     string // command name
	CmdArgs []CmdArg
	CmdTags []string
	// CmdSeps[i] separates word i from what precedes it (default one space); CmdLead / CmdTrail are
	// written after << and before >> (layout of generic commands, C17).
	CmdSeps           []string
	CmdLead, CmdTrail string
}

// Node of a program.
type Node struct {
	Title    string
	Tracking string // "", "never", "always"
	Headers  [][2]string
	Body     []*Stmt
}

// Program is a list of nodes plus their distribution over readers.
type Program struct {
	Nodes []*Node
	// Split[i] is the number of nodes in reader i; nil = everything in one reader.
	Split []int
}

// FindNode returns the first node with the given title.
func (p *Program) FindNode(title string) *Node {
	for _, n := range p.Nodes {
		if n.Title == title {
			return n
		}
	}
	return nil
}

// ---- small helpers used by generators ----

func Line(text string) *Stmt { return &Stmt{K: SLine, Line: TextLine(text)} }
func LineOf(l *LineSpec) *Stmt {
	return &Stmt{K: SLine, Line: l}
}
func Set(v, op string, e *Expr) *Stmt { return &Stmt{K: SSet, Var: v, AssOp: op, E: e} }
func Declare(v string, e *Expr) *Stmt { return &Stmt{K: SDeclare, Var: v, E: e} }
func Jump(t string) *Stmt             { return &Stmt{K: SJump, Target: t} }
func JumpE(e *Expr) *Stmt             { return &Stmt{K: SJumpExpr, E: e} }
func Stop() *Stmt                     { return &Stmt{K: SStop} }
func Call(fn string, args ...*Expr) *Stmt {
	return &Stmt{K: SCall, Fn: fn, Args: args}
}
func Command(name string, args ...CmdArg) *Stmt {
	return &Stmt{K: SCommand, Cmd: name, CmdArgs: args}
}
func Options(opts ...*Option) *Stmt { return &Stmt{K: SOptions, Opts: opts} }
func If(clauses ...*Clause) *Stmt   { return &Stmt{K: SIf, Clauses: clauses} }

// CountStmts counts statements recursively.
func CountStmts(body []*Stmt) int {
	n := 0
	for _, s := range body {
		n++
		for _, o := range s.Opts {
			n += CountStmts(o.Body)
		}
		for _, c := range s.Clauses {
			n += CountStmts(c.Body)
		}
	}
	return n
}

// ExprString prints an expression fully parenthesised in canonical spelling (for witnesses).
func ExprString(e *Expr) string {
	return renderExpr(e, ParenFull, nil)
}

func quoteYarn(s string) string {
	return `"` + strings.NewReplacer(`\`, `\\`, `"`, `\"`).Replace(s) + `"`
}

func fmtNum(n float64) string {
	// the grammar has INT | INT '.' INT only: no sign, no exponent
	if n < 0 || math.IsNaN(n) || math.IsInf(n, 0) {
		panic(fmt.Sprintf("yarncore: number literal %v cannot be written in Yarn", n))
	}
	s := strconv.FormatFloat(n, 'f', -1, 64)
	return s
}
