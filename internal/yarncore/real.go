package yarncore

import (
	"errors"
	"fmt"
	"io"
	"sort"
	"strings"

	"github.com/remieven/ysgo"
	"github.com/remieven/ysgo/markup"
	"github.com/remieven/ysgo/variable"
)

// RealObs is what one call of the real Next returned.
type RealObs struct {
	K       ObsKind // OLine, OOptions, OEnd, OError; 0 with Panic set
	Node    string
	Text    string
	Tags    []string
	Opts    []OptObs
	Attrs   []markup.Attribute
	Err     error
	Waiting bool // errors.Is(err, ErrWaitingForCommandCompletion)
	Panic   string
}

func (o RealObs) String() string {
	switch {
	case o.Panic != "":
		return "PANIC(" + o.Panic + ")"
	case o.K == OLine:
		return fmt.Sprintf("line[%s]%q%v", o.Node, o.Text, o.Tags)
	case o.K == OOptions:
		var s []string
		for _, p := range o.Opts {
			d := ""
			if p.Disabled {
				d = "!"
			}
			s = append(s, fmt.Sprintf("%s%q%v", d, p.Text, p.Tags))
		}
		return fmt.Sprintf("options[%s](%s)", o.Node, strings.Join(s, " | "))
	case o.K == OEnd:
		return "end"
	case o.K == OError:
		if o.Waiting {
			return "waiting"
		}
		return "error"
	}
	return "?"
}

// Describe prints a model observation in the same form.
func (o *Obs) Describe() string {
	switch o.K {
	case OLine:
		return fmt.Sprintf("line[%s]%q%v", o.Node, o.Text, o.Tags)
	case OOptions:
		var s []string
		for _, p := range o.Opts {
			d := ""
			if p.Disabled {
				d = "!"
			}
			s = append(s, fmt.Sprintf("%s%q%v", d, p.Text, p.Tags))
		}
		return fmt.Sprintf("options[%s](%s)", o.Node, strings.Join(s, " | "))
	case OEnd:
		return "end"
	case OError:
		return "error"
	case OWait:
		return "waiting"
	}
	return "diverge"
}

// Real wraps a real dialogue runner.
type Real struct {
	DR *ysgo.DialogueRunner
}

// NewReal creates a real runner through the public API only. A panic is returned as a string.
func NewReal(srcs []string, seed string, storer variable.Storer) (r *Real, err error, panicked string) {
	defer func() {
		if p := recover(); p != nil {
			r, err, panicked = nil, nil, fmt.Sprint(p)
		}
	}()
	readers := make([]io.Reader, len(srcs))
	for i, s := range srcs {
		readers[i] = strings.NewReader(s)
	}
	dr, err := ysgo.NewDialogueRunner(storer, seed, readers...)
	if err != nil {
		return nil, err, ""
	}
	return &Real{DR: dr}, nil, ""
}

// snapshotString renders what Snapshot() returns now (current node, variables with their types, visit counts).
func snapshotString(r *Real) (out string) {
	defer func() {
		if p := recover(); p != nil {
			out = fmt.Sprint("Snapshot panicked: ", p)
		}
	}()
	s := r.DR.Snapshot()
	if s == nil {
		return "nil"
	}
	var vars, visits []string
	for k, v := range s.Variables {
		mv, _ := FromVar(&v)
		vars = append(vars, k+"="+mv.String())
	}
	for k, n := range s.VisitedNodes {
		visits = append(visits, fmt.Sprintf("%s:%d", k, n))
	}
	sort.Strings(vars)
	sort.Strings(visits)
	return fmt.Sprintf("node %s, variables {%s}, visits {%s}", s.CurrentNode, strings.Join(vars, " "), strings.Join(visits, " "))
}

// SnapshotString is snapshotString for other packages.
func SnapshotString(r *Real) string { return snapshotString(r) }

// NewRealFrom is NewReal for arbitrary readers (short reads, failing readers).
func NewRealFrom(readers []io.Reader, seed string, storer variable.Storer) (r *Real, err error, panicked string) {
	defer func() {
		if p := recover(); p != nil {
			r, err, panicked = nil, nil, fmt.Sprint(p)
		}
	}()
	dr, err := ysgo.NewDialogueRunner(storer, seed, readers...)
	if err != nil {
		return nil, err, ""
	}
	return &Real{DR: dr}, nil, ""
}

// Next calls the real Next and classifies the result.
func (r *Real) Next(choice int) (o RealObs) {
	defer func() {
		if p := recover(); p != nil {
			o = RealObs{Panic: fmt.Sprint(p)}
		}
	}()
	el, err := r.DR.Next(choice)
	switch {
	case err != nil:
		return RealObs{K: OError, Err: err, Waiting: errors.Is(err, ysgo.ErrWaitingForCommandCompletion)}
	case el == nil:
		return RealObs{K: OEnd}
	case el.Line != nil && el.Options == nil:
		return RealObs{K: OLine, Node: el.Node, Text: el.Line.Text, Tags: el.Line.Tags, Attrs: el.Line.Attributes}
	case el.Line == nil && el.Options != nil:
		o := RealObs{K: OOptions, Node: el.Node}
		for _, op := range el.Options {
			if op.Line == nil {
				return RealObs{Panic: "option without line (malformed element)"}
			}
			o.Opts = append(o.Opts, OptObs{Text: op.Line.Text, Tags: op.Line.Tags, Disabled: op.Disabled, Attrs: op.Line.Attributes})
		}
		return o
	}
	return RealObs{Panic: "malformed element: neither a line nor an option group (or both)"}
}

// Flags select what Diff compares.
type Flags struct {
	IgnoreText     bool // do not compare texts at all
	IgnoreTags     bool
	IgnoreDisabled bool
}

func sameTags(a, b []string) bool {
	if len(a) != len(b) {
		return false
	}
	for i := range a {
		if a[i] != b[i] {
			return false
		}
	}
	return true
}

// Diff compares a model observation with a real one; "" means they agree on everything the
// model fixes.
func Diff(m *Obs, r RealObs, f Flags) string {
	if r.Panic != "" {
		return "panic: " + r.Panic
	}
	if m.K == OWait {
		if r.K == OError && r.Waiting {
			return ""
		}
		return fmt.Sprintf("expected ErrWaitingForCommandCompletion, got %s", r.String())
	}
	if m.K != r.K {
		return fmt.Sprintf("expected %s, got %s", m.Describe(), r.String())
	}
	switch m.K {
	case OLine:
		if strings.TrimSpace(m.Node) != strings.TrimSpace(r.Node) { // whether blanks around a title belong to it is not settled by the properties
			return fmt.Sprintf("node: expected %q, got %q (%s)", m.Node, r.Node, r.String())
		}
		if !f.IgnoreText && m.TextFixed && m.Text != r.Text {
			return fmt.Sprintf("text: expected %q, got %q", m.Text, r.Text)
		}
		if !f.IgnoreTags && !sameTags(m.Tags, r.Tags) {
			return fmt.Sprintf("tags: expected %v, got %v", m.Tags, r.Tags)
		}
	case OOptions:
		if strings.TrimSpace(m.Node) != strings.TrimSpace(r.Node) {
			return fmt.Sprintf("node: expected %q, got %q", m.Node, r.Node)
		}
		if len(m.Opts) != len(r.Opts) {
			return fmt.Sprintf("expected %s, got %s", m.Describe(), r.String())
		}
		for i := range m.Opts {
			if !f.IgnoreText && m.Opts[i].TextFixed && m.Opts[i].Text != r.Opts[i].Text {
				return fmt.Sprintf("option %d text: expected %q, got %q", i, m.Opts[i].Text, r.Opts[i].Text)
			}
			if !f.IgnoreTags && !sameTags(m.Opts[i].Tags, r.Opts[i].Tags) {
				return fmt.Sprintf("option %d tags: expected %v, got %v", i, m.Opts[i].Tags, r.Opts[i].Tags)
			}
			if !f.IgnoreDisabled && m.Opts[i].Disabled != r.Opts[i].Disabled {
				return fmt.Sprintf("option %d disabled: expected %v, got %v", i, m.Opts[i].Disabled, r.Opts[i].Disabled)
			}
		}
	case OError:
		if r.Waiting {
			return "expected a script-level error, got ErrWaitingForCommandCompletion"
		}
	}
	return ""
}

// FromVar converts a real value to a model value.
func FromVar(v *variable.Value) (Value, bool) {
	switch {
	case v == nil:
		return Value{}, false
	case v.Number != nil:
		return Num(*v.Number), true
	case v.Boolean != nil:
		return Bool(*v.Boolean), true
	case v.String != nil:
		return Str(*v.String), true
	}
	return Value{}, false
}

// ToVar converts a model value to a real value.
func ToVar(v Value) *variable.Value {
	switch v.K {
	case VNum:
		return variable.NewNumber(v.N)
	case VBool:
		return variable.NewBoolean(v.B)
	case VStr:
		return variable.NewString(v.S)
	}
	return nil
}

// ArgsString renders a typed argument list canonically (for handler logs).
func ArgsString(args []Value) string {
	s := make([]string, len(args))
	for i, a := range args {
		s[i] = a.String()
	}
	return strings.Join(s, ",")
}

// RealArgs converts real argument values to model values ("none" for malformed ones).
func RealArgs(args []*variable.Value) []Value {
	out := make([]Value, len(args))
	for i, a := range args {
		out[i], _ = FromVar(a)
	}
	return out
}
