package yarncore

import (
	"errors"
	"fmt"
	"math"
	"regexp"
	"strings"

	"github.com/remieven/ysgo/markup"
)

// The reference interpreter. It is deliberately not built like the implementation (a stack of
// statement queues): it is a continuation-passing evaluator over the AST that yields a lazy
// tree of observations. Errors are a class, never a message.

type ObsKind int

const (
	OLine ObsKind = iota + 1
	OOptions
	OEnd
	OError
	ODiverge // the model ran into a jump cycle that never yields: no implementation can return
	OWait    // a command has not completed: Next must return ErrWaitingForCommandCompletion
)

func (k ObsKind) String() string {
	return [...]string{"?", "line", "options", "end", "error", "diverge", "waiting"}[k]
}

// OptObs is one option of an option group.
type OptObs struct {
	Text     string
	Tags     []string
	Disabled bool
	// TextFixed is false when the text contains the display of a number whose form the
	// property does not fix, or the result of an unmodelled function.
	TextFixed bool
	// Attrs holds the markup attributes of an option of the real runner (never set by the model).
	Attrs []markup.Attribute
}

// Obs is one observation: what a call of Next must return.
type Obs struct {
	K         ObsKind
	Node      string
	Text      string
	Tags      []string
	TextFixed bool
	Opts      []OptObs
	// OptsFailed: this error is an option group that could not be prepared (what the next call does then is not settled)
	OptsFailed bool
	next       func(choice int) *Obs
}

// Next continues the model after this observation. For option groups choice selects the option;
// otherwise it is ignored.
func (o *Obs) Next(choice int) *Obs { return o.next(choice) }

// ErrModel is the single error class of the model.
var ErrModel = errors.New("script-level fault")

// FuncResult is what a modelled host function does.
type FuncResult struct {
	V        Value
	HasValue bool
	Err      bool
	Unknown  bool // result not modelled (random built-ins): text depending on it is not compared
}

// ModelFunc models a function callable from scripts.
type ModelFunc func(m *Machine, args []Value) FuncResult

// ModelCmd models a command handler that completes immediately; it returns whether it fails.
type ModelCmd func(m *Machine, args []Value) (fails bool)

// PendingCmds names the commands whose handler never reports completion (C07: a runner waiting
// for a command).

// Host is the host configuration of a model run.
type Host struct {
	Funcs map[string]ModelFunc
	Cmds  map[string]ModelCmd
	Vars  map[string]Value // initial storer contents
	// Pending: commands that are started (logged) and never complete.
	Pending map[string]bool
	// Deferred: commands that are started (logged), answer one poll with "waiting", and are then
	// completed by the host (true: with an error).
	Deferred map[string]bool
}

// Checkpoint is the state captured at node entry (C07).
type Checkpoint struct {
	Vars   map[string]Value
	Visits map[string]int
	Node   string
}

// Machine is the mutable state of one model run.
type Machine struct {
	P      *Program
	H      *Host
	Store  map[string]Value
	Visits map[string]int
	Cur    string
	CP     Checkpoint
	Log    []string // handler invocations, in order
	Writes []string // storer writes the script must have issued, in order
	Jumps  int      // jumps performed
	Notes  []string // host actions performed between calls (for diagnostics)
	// MaxJumps bounds the jumps along one path (looping programs are explored to a finite horizon).
	MaxJumps   int
	sinceYield int
	// Diverged is set when the model ran into a jump cycle that never yields.
	Diverged bool
	unknown  bool // an unmodelled value flowed into the current evaluation
}

// NewMachine creates a model run of p under host h.
func NewMachine(p *Program, h *Host) *Machine {
	if h == nil {
		h = &Host{}
	}
	m := &Machine{P: p, H: h, Store: map[string]Value{}, Visits: map[string]int{}, MaxJumps: 1 << 30}
	for k, v := range h.Vars {
		m.Store[k] = v
	}
	if len(p.Nodes) > 0 {
		m.Cur = p.Nodes[0].Title
	}
	m.checkpoint()
	return m
}

func (m *Machine) checkpoint() {
	cp := Checkpoint{Vars: map[string]Value{}, Visits: map[string]int{}, Node: m.Cur}
	for k, v := range m.Store {
		cp.Vars[k] = v
	}
	for k, v := range m.Visits {
		cp.Visits[k] = v
	}
	m.CP = cp
}

// Restore puts the machine back at a checkpoint and returns the first observation from there.
func (m *Machine) Restore(cp Checkpoint) *Obs {
	m.Store = map[string]Value{}
	for k, v := range cp.Vars {
		m.Store[k] = v
	}
	m.Visits = map[string]int{}
	for k, v := range cp.Visits {
		m.Visits[k] = v
	}
	m.Cur = cp.Node
	m.checkpoint()
	m.sinceYield = 0
	n := m.P.FindNode(cp.Node)
	return m.run(n.Body, m.end)
}

// Start returns the first observation.
func (m *Machine) Start() *Obs {
	if len(m.P.Nodes) == 0 {
		return m.end()
	}
	return m.run(m.P.Nodes[0].Body, m.end)
}

func (m *Machine) end() *Obs {
	o := &Obs{K: OEnd}
	o.next = func(int) *Obs { return m.end() }
	return o
}

func (m *Machine) errObs(k func() *Obs) *Obs {
	m.sinceYield = 0
	o := &Obs{K: OError, Node: m.Cur}
	o.next = func(int) *Obs { return k() }
	return o
}

func (m *Machine) run(body []*Stmt, k func() *Obs) *Obs {
	if len(body) == 0 {
		return k()
	}
	return m.exec(body[0], func() *Obs { return m.run(body[1:], k) })
}

func (m *Machine) lineText(ls *LineSpec) (text string, fixed bool, err error) {
	var b strings.Builder
	fixed = true
	for _, p := range ls.Parts {
		if p.E == nil {
			b.WriteString(p.Want)
			continue
		}
		m.unknown = false
		v, e := m.Eval(p.E)
		if e != nil {
			return "", false, e
		}
		if m.unknown || !v.DisplayUnambiguous() {
			fixed = false
		}
		b.WriteString(v.Display())
	}
	return strings.TrimSpace(b.String()), fixed, nil
}

func (m *Machine) exec(s *Stmt, k func() *Obs) *Obs {
	switch s.K {
	case SLine:
		text, fixed, err := m.lineText(s.Line)
		if err != nil {
			return m.errObs(k)
		}
		m.sinceYield = 0
		o := &Obs{K: OLine, Node: m.Cur, Text: text, Tags: s.Line.Tags, TextFixed: fixed}
		o.next = func(int) *Obs { return k() }
		return o
	case SOptions:
		o := &Obs{K: OOptions, Node: m.Cur}
		for _, opt := range s.Opts {
			text, fixed, err := m.lineText(opt.Line)
			if err != nil {
				e := m.errObs(k)
				e.OptsFailed = true
				return e
			}
			disabled := false
			if opt.Line.Cond != nil {
				v, err := m.Eval(opt.Line.Cond)
				if err != nil || v.K != VBool {
					e := m.errObs(k)
					e.OptsFailed = true
					return e
				}
				disabled = !v.B
			}
			o.Opts = append(o.Opts, OptObs{Text: text, Tags: opt.Line.Tags, Disabled: disabled, TextFixed: fixed})
		}
		m.sinceYield = 0
		opts := s.Opts
		o.next = func(choice int) *Obs {
			if choice < 0 || choice >= len(opts) {
				panic(fmt.Sprintf("model: choice %d out of range %d", choice, len(opts)))
			}
			return m.run(opts[choice].Body, k)
		}
		return o
	case SIf:
		for _, c := range s.Clauses {
			if c.Cond == nil {
				return m.run(c.Body, k)
			}
			v, err := m.Eval(c.Cond)
			if err != nil || v.K != VBool {
				return m.errObs(k)
			}
			if v.B {
				return m.run(c.Body, k)
			}
		}
		return k()
	case SSet, SDeclare:
		op := s.AssOp
		if s.K == SDeclare || op == "" {
			op = "="
		}
		if err := m.assign(s.Var, op, s.E); err != nil {
			return m.errObs(k)
		}
		return k()
	case SJump, SJumpExpr:
		target := s.Target
		if s.K == SJumpExpr {
			v, err := m.Eval(s.E)
			if err != nil || v.K != VStr {
				return m.errObs(k)
			}
			target = v.S
		}
		n := m.P.FindNode(target)
		if n == nil {
			return m.errObs(k)
		}
		if m.Jumps >= m.MaxJumps && m.sinceYield == 0 {
			// horizon reached (only checked at the first jump after a yield, so that a chain of
			// jumps that never yields is always followed until it is recognised as such below)
			return &Obs{K: ODiverge, Node: m.Cur, next: func(int) *Obs { return m.end() }}
		}
		m.Jumps++
		m.sinceYield++
		if m.sinceYield > len(m.P.Nodes)+1 {
			m.Diverged = true
			return &Obs{K: ODiverge, Node: m.Cur, next: func(int) *Obs { return m.end() }}
		}
		if cur := m.P.FindNode(m.Cur); cur != nil && cur.Tracking != "never" {
			m.Visits[m.Cur]++
		}
		m.Cur = n.Title
		m.checkpoint()
		return m.run(n.Body, m.end)
	case SStop:
		return m.end()
	case SCall:
		args, err := m.evalArgs(s.Args)
		if err != nil {
			return m.errObs(k)
		}
		f := m.lookupFunc(s.Fn)
		if f == nil {
			return m.errObs(k)
		}
		if r := f(m, args); r.Err {
			return m.errObs(k)
		}
		return k()
	case SCommand:
		name := s.Cmd
		var args []Value
		for _, a := range s.CmdArgs {
			if a.E != nil {
				v, err := m.Eval(a.E)
				if err != nil {
					return m.errObs(k)
				}
				args = append(args, v)
			} else {
				args = append(args, WordValue(a.Word))
			}
		}
		if name == "stop" {
			return m.end()
		}
		if m.H.Pending[name] {
			m.Log = append(m.Log, "cmd:"+name+"("+ArgsString(args)+")")
			m.sinceYield = 0
			var w *Obs
			w = &Obs{K: OWait, Node: m.Cur}
			w.next = func(int) *Obs { return w }
			return w
		}
		if fails, ok := m.H.Deferred[name]; ok {
			m.Log = append(m.Log, "cmd:"+name+"("+ArgsString(args)+")")
			m.sinceYield = 0
			w := &Obs{K: OWait, Node: m.Cur}
			w.next = func(int) *Obs {
				if fails {
					return m.errObs(k)
				}
				return k()
			}
			return w
		}
		c := m.H.Cmds[name]
		if c == nil {
			return m.errObs(k)
		}
		if c(m, args) {
			return m.errObs(k)
		}
		return k()
	}
	panic("model: unknown statement kind")
}

var decimalWord = regexp.MustCompile(`^-?[0-9]+(\.[0-9]+)?$`)

// WordValue types a bare word of a generic command as the property C17 prescribes.
func WordValue(w string) Value {
	switch {
	case w == "true":
		return Bool(true)
	case w == "false":
		return Bool(false)
	case decimalWord.MatchString(w):
		var f float64
		fmt.Sscanf(w, "%g", &f)
		return Num(f)
	}
	return Str(w)
}

func (m *Machine) assign(name, op string, e *Expr) error {
	v, err := m.Eval(e)
	if err != nil {
		return err
	}
	old, ok := m.Store[name]
	if ok && old.K != v.K {
		return ErrModel // a variable never changes type
	}
	if !ok && op != "=" {
		return ErrModel // compound assignment to an unknown variable
	}
	var nv Value
	switch v.K {
	case VNum:
		switch op {
		case "=":
			nv = v
		case "+=":
			nv = Num(old.N + v.N)
		case "-=":
			nv = Num(old.N - v.N)
		case "*=":
			nv = Num(old.N * v.N)
		case "/=":
			nv = Num(old.N / v.N)
		case "%=":
			nv = Num(math.Mod(old.N, v.N))
		default:
			return ErrModel
		}
	case VBool:
		if op != "=" {
			return ErrModel
		}
		nv = v
	case VStr:
		switch op {
		case "=":
			nv = v
		case "+=":
			nv = Str(old.S + v.S)
		default:
			return ErrModel
		}
	}
	m.Store[name] = nv
	m.Writes = append(m.Writes, "set "+name+"="+nv.String())
	return nil
}

func (m *Machine) evalArgs(es []*Expr) ([]Value, error) {
	var out []Value
	for _, e := range es {
		v, err := m.Eval(e)
		if err != nil {
			return nil, err
		}
		out = append(out, v)
	}
	return out, nil
}

func (m *Machine) lookupFunc(name string) ModelFunc {
	if f := m.H.Funcs[name]; f != nil {
		return f
	}
	return builtinModel[name]
}

// Eval evaluates an expression: a direct transcription of the operator table of C02.
func (m *Machine) Eval(e *Expr) (Value, error) {
	switch e.K {
	case ENum:
		return Num(e.N), nil
	case EBool:
		return Bool(e.B), nil
	case EStr:
		return Str(e.S), nil
	case EVar:
		v, ok := m.Store[e.S]
		if !ok {
			return Value{}, ErrModel
		}
		return v, nil
	case ENull:
		return Value{}, ErrModel
	case ERaw:
		if e.RawErr {
			return Value{}, ErrModel
		}
		m.unknown = true
		return Value{}, nil
	case EParen:
		return m.Eval(e.L)
	case ENeg:
		v, err := m.Eval(e.L)
		if err != nil || v.K != VNum {
			return Value{}, ErrModel
		}
		return Num(-v.N), nil
	case ENot:
		v, err := m.Eval(e.L)
		if err != nil || v.K != VBool {
			return Value{}, ErrModel
		}
		return Bool(!v.B), nil
	case ECall:
		args, err := m.evalArgs(e.Args)
		if err != nil {
			return Value{}, err
		}
		f := m.lookupFunc(e.S)
		if f == nil {
			return Value{}, ErrModel
		}
		r := f(m, args)
		if r.Err || (!r.HasValue && !r.Unknown) {
			return Value{}, ErrModel
		}
		if r.Unknown {
			m.unknown = true
		}
		return r.V, nil
	case EBin:
		l, err := m.Eval(e.L)
		if err != nil {
			return Value{}, err
		}
		if e.Op == "and" || e.Op == "or" {
			if l.K != VBool {
				return Value{}, ErrModel
			}
			if (e.Op == "and" && !l.B) || (e.Op == "or" && l.B) {
				return l, nil // the right operand is not evaluated
			}
		}
		r, err := m.Eval(e.R)
		if err != nil {
			return Value{}, err
		}
		return BinOp(e.Op, l, r)
	}
	return Value{}, ErrModel
}

// BinOp is the operator table.
func BinOp(op string, l, r Value) (Value, error) {
	if l.K != r.K {
		return Value{}, ErrModel
	}
	switch op {
	case "*", "/", "%", "-", "<=", ">=", "<", ">":
		if l.K != VNum {
			return Value{}, ErrModel
		}
	case "+":
		if l.K == VBool {
			return Value{}, ErrModel
		}
	case "and", "or", "xor":
		if l.K != VBool {
			return Value{}, ErrModel
		}
	}
	switch op {
	case "*":
		return Num(l.N * r.N), nil
	case "/":
		return Num(l.N / r.N), nil
	case "%":
		return Num(math.Mod(l.N, r.N)), nil
	case "+":
		if l.K == VStr {
			return Str(l.S + r.S), nil
		}
		return Num(l.N + r.N), nil
	case "-":
		return Num(l.N - r.N), nil
	case "<=":
		return Bool(l.N <= r.N), nil
	case ">=":
		return Bool(l.N >= r.N), nil
	case "<":
		return Bool(l.N < r.N), nil
	case ">":
		return Bool(l.N > r.N), nil
	case "==":
		return Bool(l.Equal(r) && !(l.K == VNum && math.IsNaN(l.N))), nil
	case "!=":
		return Bool(!(l.Equal(r) && !(l.K == VNum && math.IsNaN(l.N)))), nil
	case "and":
		return Bool(l.B && r.B), nil
	case "or":
		return Bool(l.B || r.B), nil
	case "xor":
		return Bool(l.B != r.B), nil
	}
	return Value{}, ErrModel
}

// builtinModel models the built-in functions that generated programs use for control flow.
// Random built-ins are "unknown": their results are not compared by the model.
var builtinModel = map[string]ModelFunc{
	"visited": func(m *Machine, a []Value) FuncResult {
		if len(a) != 1 || a[0].K != VStr {
			return FuncResult{Err: true}
		}
		return FuncResult{V: Bool(m.Visits[a[0].S] > 0), HasValue: true}
	},
	"visited_count": func(m *Machine, a []Value) FuncResult {
		if len(a) != 1 || a[0].K != VStr {
			return FuncResult{Err: true}
		}
		return FuncResult{V: Num(float64(m.Visits[a[0].S])), HasValue: true}
	},
	"string": func(m *Machine, a []Value) FuncResult {
		if len(a) != 1 {
			return FuncResult{Err: true}
		}
		if !a[0].DisplayUnambiguous() {
			return FuncResult{Unknown: true, V: Str(a[0].Display())}
		}
		return FuncResult{V: Str(a[0].Display()), HasValue: true}
	},
	"number": func(m *Machine, a []Value) FuncResult {
		if len(a) != 1 {
			return FuncResult{Err: true}
		}
		switch a[0].K {
		case VNum:
			return FuncResult{V: a[0], HasValue: true}
		case VBool:
			if a[0].B {
				return FuncResult{V: Num(1), HasValue: true}
			}
			return FuncResult{V: Num(0), HasValue: true}
		}
		return FuncResult{Unknown: true, V: Num(0)}
	},
	"bool": func(m *Machine, a []Value) FuncResult {
		if len(a) != 1 {
			return FuncResult{Err: true}
		}
		if a[0].K == VBool {
			return FuncResult{V: a[0], HasValue: true}
		}
		return FuncResult{Unknown: true, V: Bool(false)}
	},
	"random":       func(m *Machine, a []Value) FuncResult { return FuncResult{Unknown: true, V: Num(0)} },
	"dice":         func(m *Machine, a []Value) FuncResult { return FuncResult{Unknown: true, V: Num(1)} },
	"random_range": func(m *Machine, a []Value) FuncResult { return FuncResult{Unknown: true, V: Num(0)} },
}
