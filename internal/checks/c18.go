package checks

import (
	"fmt"
	"github.com/remieven/ysgo/variable"
	"strings"
	"time"

	"github.com/remieven/ysgo"
	"github.com/remieven/ysgo/verifx/internal/explore"
	"github.com/remieven/ysgo/verifx/internal/report"
	yc "github.com/remieven/ysgo/verifx/internal/yarncore"
	"github.com/remieven/ysgo/verifx/vsched"
)

func init() {
	register(&Check{
		Meta: report.Meta{
			Property: "C18",
			Rule: "stateless exploration under the cooperative scheduler of 2-3 threads, each creating its own runner from its own script (options, markup incl. open-form replacement markers, random built-ins with equal and different seeds, visit counters, converted functions, immediate commands, RestoreAt from a snapshot value shared by the threads, and a syntactically invalid script whose load must fail next to valid loads) and stepping it along a fixed path; " +
				"L1: scheduling points at every API call, ALL interleavings; L3: additionally a scheduling point at every function entry of the hand-written packages, at every Mutex / RWMutex operation of the ANTLR runtime and at the sync.Once of the generated recognisers (sources rewritten, ANTLR mutex.go replaced through a go build overlay), 2 threads, preemption bound 1 (quick) / 2 (thorough), warm caches, and cold (static data of the recognisers reset before each execution) with bound 1; " +
				"oracle: the observation trace of every thread equals the trace of the same task run alone, no panic, no deadlock; plus a free-running -race pass (goroutines x runners over the same scripts, cold start included); a case is one complete schedule; non-trivial = schedule with at least one context switch between two API calls / inside a call",
			StatesMean:  "distinct complete schedules; transitions = scheduling points granted",
			Assumptions: []string{"sequential consistency at hook granularity; unsynchronised accesses between scheduling points are invisible to the scheduler and are the subject of the -race pass", "preemption-bounded above L1: schedules needing more preemptions than the bound are not explored"},
		},
		QuickBudget: 180 * time.Second, ThoroughBudget: 14 * time.Minute, CrashIsViolation: true, ProcsPerWorker: 1, RacePass: true,
		Run: runC18,
	})
}

type c18Task struct {
	name    string
	script  string
	seed    string
	path    []int // argument of each Next call
	restore bool  // RestoreAt(shared snapshot) before stepping
}

const c18ScriptA = `title: A
---
Zoé: [b]Hi[/b] {visited_count("A")} [nomarkup]x[a/][/nomarkup] end
-> left <<if true>>
    picked left {dice(6)}
    <<jump B>>
-> right
    picked right
tail
===
title: B
---
in B {visited("A")} {random_range(1,100)}
<<set $v = 1>>
<<act 1 true>>
{twice($v)} [select value=a a="née"][/select] {random()}
<<jump A>>
===
`

const c18ScriptC = `title: C
---
<<set $n = 0>>
one [plural value=2 one="% x" other="% xs"/] {dice(100)}
<<set $n += 1>>
-> a
-> b
    in b {$n} {visited_count("C")}
<<if $n >= 1>>
then {dice(6)} {dice(6)}
<<endif>>
<<jump C>>
===
`

// c18ScriptBad is not a valid script (its load must fail, alone and next to other loads).
const c18ScriptBad = "title: X\n---\n<<set $x to to 1>>\nline\n<<if>>\n===\n"

const c18ScriptLine = "title: L\n---\nonly [b]line[/b] {dice(6)}\n===\n"
const c18ScriptOpt = "title: O\n---\n-> o1\n    in {random_range(1,9)}\n-> o2\nafter\n===\n"

// c18ScriptPaired uses the open / close form of every replacement marker.
const c18ScriptPaired = "title: P\n---\n[nomarkup][x]raw[/x][/nomarkup] a\n[select value=b a=\"1\" b=\"2\"][/select] b\n[plural value=3 one=\"% x\" other=\"% xs\"][/plural] c\n[ordinal value=2 one=\"%st\" two=\"%nd\" few=\"%rd\" other=\"%th\"][/ordinal] d\n===\n"

// c18ScriptBadIndent fails to load while an indented block is still open (tabs and spaces mixed inside an option body).
const c18ScriptBadIndent = "title: Y\n---\n-> o\n    in\n    \tmixed\n===\n"

// c18ScriptFaults: statements that fail (an unknown command, an unknown variable, arguments a converted command refuses, a
// jump to an unknown node) between lines that call the numeric built-ins: every runner reports each fault itself, every time.
const c18ScriptFaults = "title: U\n---\nbefore {floor(2.5)}\n<<fanfare loud>>\nmid {$nope}\n<<act x y>>\nafter {round_places(1.26, 1)} {ceil(2.5)} {inc(1)} {round(0.5)}\n<<fanfare again>>\n<<jump Nowhere>>\nend {decimal(1.5)} {dec(3)} {integer(-1.5)}\n===\n"

var c18Shared *ysgo.Snapshot

func c18Install(dr *ysgo.DialogueRunner, log *[]string) {
	dr.ConvertAndAddFunction("twice", func(i int) int { return 2 * i })
	dr.ConvertAndAddCommand("act", func(i int, b bool) chan error {
		*log = append(*log, fmt.Sprintf("act(%d,%v)", i, b))
		ch := make(chan error, 1)
		ch <- nil
		return ch
	})
}

// run executes the task; api is called before every API call (a scheduling point under the scheduler).
func (t *c18Task) run(api func()) string {
	var trace []string
	var log []string
	api()
	dr, err := ysgo.NewDialogueRunner(nil, t.seed, strings.NewReader(t.script))
	if err != nil {
		return "load error" // the class only: messages are not compared
	}
	c18Install(dr, &log)
	r := &yc.Real{DR: dr}
	if t.restore {
		api()
		if err := dr.RestoreAt(c18Shared); err != nil {
			return "restore error: " + err.Error()
		}
	}
	for _, a := range t.path {
		api()
		ro := r.Next(a)
		s := ro.String()
		if ro.K == yc.OLine {
			s += fmt.Sprint(ro.Attrs)
		}
		trace = append(trace, s)
	}
	if t.restore {
		api()
		snap := dr.Snapshot()
		trace = append(trace, fmt.Sprintf("snapshot %s %v", snap.CurrentNode, snap.VisitedNodes))
	}
	return strings.Join(trace, " → ") + " | " + strings.Join(log, ";")
}

func runC18(ctx *report.Ctx) {
	if !vsched.Rewritten {
		ctx.HarnessError("C18 needs the binary built with the scheduler overlay (./check builds it): vsched.Rewritten is false")
		return
	}
	for i, f := range vsched.RewrittenFiles {
		if i < 18 {
			ctx.Note("rewritten: %s", f)
		}
	}
	// the snapshot shared by the restore tasks
	{
		dr, err := ysgo.NewDialogueRunner(nil, "abc", strings.NewReader(c18ScriptA))
		if err != nil {
			ctx.HarnessError("C18: %v", err)
			return
		}
		var l []string
		c18Install(dr, &l)
		for _, a := range []int{0, 0, 0, 0} {
			dr.Next(a)
		}
		c18Shared = dr.Snapshot()
	}
	tA1 := &c18Task{name: "A/seed abc/left", script: c18ScriptA, seed: "abc", path: []int{0, 0, 0, 0, 0, 0}}
	tA2 := &c18Task{name: "A/seed abc/right", script: c18ScriptA, seed: "abc", path: []int{0, 0, 1, 0, 0}}
	tA3 := &c18Task{name: "A/seed zz9/left", script: c18ScriptA, seed: "zz9", path: []int{0, 0, 0, 0, 0, 0}}
	tC := &c18Task{name: "C/seed abc", script: c18ScriptC, seed: "abc", path: []int{0, 0, 1, 0, 0, 0, 0}}
	tR1 := &c18Task{name: "A/restore shared snapshot/1", script: c18ScriptA, seed: "abc", path: []int{0, 0, 0, 0}, restore: true}
	tR2 := &c18Task{name: "A/restore shared snapshot/2", script: c18ScriptA, seed: "q", path: []int{0, 0, 0, 0, 0}, restore: true}
	tL := &c18Task{name: "one line", script: c18ScriptLine, seed: "abc", path: []int{0, 0}}
	tO := &c18Task{name: "one option group", script: c18ScriptOpt, seed: "abc", path: []int{0, 0, 0}}
	tBad := &c18Task{name: "invalid script (load must fail)", script: c18ScriptBad, seed: "abc", path: nil}
	tBadIndent := &c18Task{name: "invalid script (mixed indentation inside an option body)", script: c18ScriptBadIndent, seed: "abc", path: nil}
	tP := &c18Task{name: "paired replacement markers", script: c18ScriptPaired, seed: "abc", path: []int{0, 0, 0, 0}}
	tU := &c18Task{name: "failing statements and numeric built-ins", script: c18ScriptFaults, seed: "abc", path: []int{0, 0, 0, 0, 0, 0, 0, 0, 0}}
	all := []*c18Task{tA1, tA2, tA3, tC, tR1, tR2, tL, tO, tBad, tU}
	alone := map[*c18Task]string{}
	for _, t := range all {
		alone[t] = t.run(func() {}) // no execution active: plain run (also warms the caches)
		if again := t.run(func() {}); again != alone[t] {
			ctx.Violation(report.Violation{Clause: "sequential-interference", Witness: "task " + t.name + " run twice in a row", Detail: "first " + alone[t] + " second " + again, Part: "alone"})
			return
		}
		ctx.Outcome(alone[t])
	}

	type scenario struct {
		name  string
		tasks []*c18Task
		cut   int // API calls kept per task (shortens the paths for the larger scenarios)
	}
	executed := 0
	explore1 := func(partName string, sc scenario, o vsched.Options, cold bool, shardDepth int) {
		// the tasks as they are run in this scenario (possibly shortened), and their traces alone
		var tasks []*c18Task
		var want []string
		for _, t := range sc.tasks {
			tt := *t
			if sc.cut > 0 && len(tt.path) > sc.cut {
				tt.path = tt.path[:sc.cut]
			}
			tasks = append(tasks, &tt)
			want = append(want, tt.run(func() {}))
		}
		part(ctx, partName, -1, func(c *explore.Chooser) {
			count, skip, decided := 0, false, false
			o.Choose = func(n int, label string) int {
				if skip {
					return 0
				}
				v := c.Choose(n, label)
				count++
				if count == shardDepth {
					decided = true
					if !c.Mine() {
						skip = true
					}
				}
				return v
			}
			if cold && vsched.ResetStatic != nil {
				vsched.ResetStatic()
			}
			ctx.Current(partName + ": " + sc.name + " choices so far " + intsString(c.Choices()))
			traces := make([]string, len(sc.tasks))
			body := func(into []string) func() {
				return func() {
					done := make(chan int, len(sc.tasks))
					for i, t := range tasks {
						i, t := i, t
						vsched.Go(func() {
							into[i] = t.run(func() { vsched.Point("api") })
							vsched.Send(done, i)
						})
					}
					for range sc.tasks {
						vsched.Recv(done)
					}
				}
			}
			ex := vsched.Run(o, body(traces))
			// the same schedule executed once more must give the same execution (before any failure is believed, and
			// for one execution in 97 anyway): nondeterminism outside the scheduler's control is a harness error
			sameAgain := func() bool {
				fixed := c.Choices()
				k := 0
				o2 := o
				o2.Choose = func(n int, label string) int {
					v := 0
					if k < len(fixed) {
						v = fixed[k]
					}
					k++
					if v >= n {
						v = 0
					}
					return v
				}
				if cold && vsched.ResetStatic != nil {
					vsched.ResetStatic()
				}
				traces2 := make([]string, len(sc.tasks))
				ex2 := vsched.Run(o2, body(traces2))
				same := ex2.Outcome == ex.Outcome && len(ex2.Log) == len(ex.Log) && strings.Join(traces2, "\x00") == strings.Join(traces, "\x00")
				for j := 0; same && j < len(ex.Log); j++ {
					same = ex.Log[j].Thread == ex2.Log[j].Thread && ex.Log[j].Kind == ex2.Log[j].Kind
				}
				if !same {
					ctx.HarnessError("C18 %s: the recorded schedule %s executed a second time gave another execution (nondeterminism not under the scheduler's control); nothing is reported for it", partName, intsString(fixed))
				} else {
					ctx.Count("schedules_replayed_identically", 1)
				}
				return same
			}
			if !decided && !c.Mine() {
				return
			}
			if skip {
				return
			}
			ctx.AddEvals(1, b2i(ex.Switches > len(sc.tasks)))
			ctx.AddStates(1)
			ctx.AddTransitions(int64(ex.Points))
			ctx.AddTraces(1)
			ctx.Count("preemptions", int64(ex.Preemptions))
			ctx.Count("schedules_"+partName, 1)
			if ex.LeakedLocks > 0 {
				ctx.Count("leaked_locks", int64(ex.LeakedLocks))
			}
			var sched []string
			fail := func(clause, detail string) {
				prev := -1
				for _, e := range ex.Log {
					if e.Thread != prev {
						sched = append(sched, fmt.Sprintf("t%d@%s:%s", e.Thread, e.Kind, e.Label))
						prev = e.Thread
					}
				}
				if len(sched) > 60 {
					sched = append(sched[:60], "…")
				}
				ctx.Violation(report.Violation{Clause: clause, Witness: partName + " " + sc.name + " choices " + intsString(c.Choices()),
					Detail:  detail + " -- context switches (thread@operation where it resumed): " + strings.Join(sched, " "),
					Choices: c.Choices(), Part: partName, Extra: map[string]any{"scenario": sc.name, "context_switches": sched}})
			}
			bad := ex.Outcome != ""
			for i := range tasks {
				bad = bad || traces[i] != want[i]
			}
			executed++
			if (bad || ctx.ViolationCount() == 0 && executed%97 == 0) && !skip && !sameAgain() {
				return
			}
			if ex.Outcome != "" {
				fail("concurrent-"+strings.SplitN(ex.Outcome, ":", 2)[0], "the execution ended in "+ex.Outcome+" "+strings.Join(ex.Panics, " ; "))
				return
			}
			for i, t := range tasks {
				if traces[i] != want[i] {
					fail("trace-differs-from-alone", fmt.Sprintf("thread %d (%s) observed %s; alone it observes %s", i+1, t.name, traces[i], want[i]))
					return
				}
			}
			ctx.OutcomeHash(uint64(ex.Switches))
			if ctx.WantSample() && ex.Preemptions > 0 {
				ctx.Sample(map[string]any{"part": partName, "scenario": sc.name, "preemptions": ex.Preemptions, "scheduling_points": ex.Points, "context_switches": ex.Switches})
			}
		})
	}

	onlyAPI := func(kind, label string) bool { return kind == "point" && label == "api" }
	l1 := []scenario{
		{"A(abc,left) || A(abc,right)", []*c18Task{tA1, tA2}, report.Pick(ctx, 4, 0)},
		{"A(abc,left) || A(zz9,left)", []*c18Task{tA1, tA3}, report.Pick(ctx, 4, 0)},
		{"A(abc,left) || C", []*c18Task{tA1, tC}, report.Pick(ctx, 4, 0)},
		{"restore(shared) || restore(shared)", []*c18Task{tR1, tR2}, report.Pick(ctx, 3, 0)},
		{"paired markers || paired markers", []*c18Task{tP, tP}, 0},
		{"failing statements || failing statements", []*c18Task{tU, tU}, report.Pick(ctx, 6, 0)},
		{"invalid (aborted in an indented block) || option group || invalid", []*c18Task{tBadIndent, tO, tBadIndent}, 0},
		{"A(abc,left) || C || A(abc,right)", []*c18Task{tA1, tC, tA2}, report.Pick(ctx, 1, 3)},
		{"restore(shared) || restore(shared) || A(abc,left)", []*c18Task{tR1, tR2, tA1}, report.Pick(ctx, 1, 2)},
	}
	if ctx.Quick() {
		l1 = l1[:8]
	}
	for i, sc := range l1 {
		explore1(fmt.Sprintf("L1-%d", i+1), sc, vsched.Options{PreemptionBound: -1, Only: onlyAPI}, false, 5)
	}
	bound := report.Pick(ctx, 1, 2)
	ctx.Bound("L3_preemption_bound_warm", bound)
	ctx.Bound("L3_preemption_bound_cold", 1)
	l3 := []scenario{
		{"line || option group", []*c18Task{tL, tO}, 0},
		{"line || line", []*c18Task{tL, tL}, 0},
		{"option group || option group", []*c18Task{tO, tO}, 0},
		{"invalid script || line", []*c18Task{tBad, tL}, 0},
		{"invalid script (load aborted inside an indented block) || option group", []*c18Task{tBadIndent, tO}, 0},
	}
	for i, sc := range l3 {
		explore1(fmt.Sprintf("L3-warm-%d", i+1), sc, vsched.Options{PreemptionBound: bound}, false, 2)
	}
	if vsched.ResetStatic != nil {
		explore1("L3-cold-1", scenario{"line || line (cold start)", []*c18Task{tL, tL}, 0}, vsched.Options{PreemptionBound: 1}, true, 1)
		if !ctx.Quick() {
			explore1("L3-cold-2", scenario{"line || option group (cold start)", []*c18Task{tL, tO}, 0}, vsched.Options{PreemptionBound: 1}, true, 1)
		}
		// leave the static data warm again for whatever follows
		tL.run(func() {})
	}
}

// c18InitShared sets the snapshot shared by the restore tasks of the race pass without running anything (the race
// pass starts cold: no parse and no Next call may precede the concurrent ones). It is the value Snapshot() returns
// after the path 0,0,0,0 of script A: node B entered once, A left once, no variable yet.
func c18InitShared() {
	c18Shared = &ysgo.Snapshot{CurrentNode: "B", Variables: map[string]variable.Value{}, VisitedNodes: map[string]int{"A": 1}}
}

func c18RaceList() []*c18Task {
	return []*c18Task{
		{name: "A/seed abc/left", script: c18ScriptA, seed: "abc", path: []int{0, 0, 0, 0, 0, 0}},
		{name: "A/seed abc/right", script: c18ScriptA, seed: "abc", path: []int{0, 0, 1, 0, 0}},
		{name: "A/seed zz9/left", script: c18ScriptA, seed: "zz9", path: []int{0, 0, 0, 0, 0, 0}},
		{name: "C/seed abc", script: c18ScriptC, seed: "abc", path: []int{0, 0, 1, 0, 0, 0, 0}},
		{name: "A/restore shared snapshot/1", script: c18ScriptA, seed: "abc", path: []int{0, 0, 0, 0}, restore: true},
		{name: "A/restore shared snapshot/2", script: c18ScriptA, seed: "q", path: []int{0, 0, 0, 0, 0}, restore: true},
		{name: "one line", script: c18ScriptLine, seed: "abc", path: []int{0, 0}},
		{name: "one option group", script: c18ScriptOpt, seed: "abc", path: []int{0, 0, 0}},
		{name: "invalid script (load must fail)", script: c18ScriptBad, seed: "abc"},
		{name: "paired replacement markers", script: c18ScriptPaired, seed: "abc", path: []int{0, 0, 0, 0}},
		{name: "invalid script (mixed indentation inside an option body)", script: c18ScriptBadIndent, seed: "abc"},
		{name: "failing statements and numeric built-ins", script: c18ScriptFaults, seed: "abc", path: []int{0, 0, 0, 0, 0, 0, 0, 0, 0}},
	}
}

// C18RaceTasks returns the tasks of C18 as plain functions (for the free-running -race pass);
// each returns its observation trace.
func C18RaceTasks() (names []string, tasks []func() string) {
	c18InitShared()
	for _, t := range c18RaceList() {
		t := t
		names = append(names, t.name)
		tasks = append(tasks, func() string { return t.run(func() {}) })
	}
	return
}

// C18RaceTasksHooked is C18RaceTasks with a hook called before every API call of a task (call 0 is the creation of
// the runner, call 1 the first call on it): the race pass uses it to line the goroutines up after their creations.
func C18RaceTasksHooked() (names []string, tasks []func(hook func(call int)) string) {
	c18InitShared()
	for _, t := range c18RaceList() {
		t := t
		names = append(names, t.name)
		tasks = append(tasks, func(hook func(call int)) string {
			n := 0
			return t.run(func() { hook(n); n++ })
		})
	}
	return
}
