package checks

import (
	"fmt"
	"strings"

	"github.com/remieven/ysgo/verifx/internal/explore"
	yc "github.com/remieven/ysgo/verifx/internal/yarncore"
)

// progGen generates YarnCore programs through the explorer, simplest alternative first.
// Every line gets a unique text derived from its generation order, so the model never has to
// enumerate texts to tell statements apart.
type progGen struct {
	c            *explore.Chooser
	rem          int      // remaining statement budget
	kinds        []string // statement alphabet
	maxDepth     int
	nodes        []string // node titles
	extraTargets []string // further jump targets (nodes added by the caller)
	lineNo       int
	maxOpts      int
	maxCl        int
	conds        []func() *yc.Expr
	// hooks for extra statement kinds: name -> generator
	extra map[string]func(g *progGen) *yc.Stmt
	// linePrefix starts the text of every generated line and option label (characters that the lexer treats
	// specially at the start of a line: a lone '/', a '-', a '<', a '=')
	linePrefix string
}

func (g *progGen) line() *yc.LineSpec {
	g.lineNo++
	return yc.TextLine(fmt.Sprintf("%sL%d", g.linePrefix, g.lineNo))
}

func (g *progGen) cond() *yc.Expr {
	return g.conds[g.c.Choose(len(g.conds), "cond")]()
}

var condsF = []func() *yc.Expr{
	func() *yc.Expr { return yc.EBoolean(true) },
	func() *yc.Expr { return yc.EBoolean(false) },
	func() *yc.Expr { return yc.EVariable("f") },
	func() *yc.Expr { return yc.ENotOf(yc.EVariable("f")) },
}

func (g *progGen) kindsAt(depth int) []string {
	if depth < g.maxDepth {
		return g.kinds
	}
	var ks []string
	for _, k := range g.kinds {
		if k != "opts" && k != "if" {
			ks = append(ks, k)
		}
	}
	return ks
}

func (g *progGen) body(depth int) []*yc.Stmt {
	var body []*yc.Stmt
	all := g.kindsAt(depth)
	for g.rem > 0 {
		kinds := all
		if len(body) > 0 && body[len(body)-1].K == yc.SOptions {
			// two adjacent option groups cannot be written down: in the text they are one group
			kinds = nil
			for _, k := range all {
				if k != "opts" {
					kinds = append(kinds, k)
				}
			}
		}
		k := g.c.Choose(1+len(kinds), "stmt")
		if k == 0 {
			break
		}
		g.rem--
		body = append(body, g.stmt(kinds[k-1], depth))
	}
	return body
}

func (g *progGen) stmt(kind string, depth int) *yc.Stmt {
	switch kind {
	case "line":
		return yc.LineOf(g.line())
	case "opts":
		n := 1
		if g.maxOpts > 1 && g.rem > 0 {
			n += g.c.Choose(g.maxOpts, "nopts")
			if n-1 > g.rem {
				n = 1 + g.rem
			}
		}
		g.rem -= n - 1
		var opts []*yc.Option
		for i := 0; i < n; i++ {
			o := &yc.Option{Line: g.line()}
			o.Body = g.body(depth + 1)
			opts = append(opts, o)
		}
		return yc.Options(opts...)
	case "if":
		ncl := 1
		if g.maxCl > 1 && g.rem > 0 {
			ncl += g.c.Choose(g.maxCl, "nclauses")
			if ncl-1 > g.rem {
				ncl = 1 + g.rem
			}
		}
		g.rem -= ncl - 1
		var cls []*yc.Clause
		for i := 0; i < ncl; i++ {
			cl := &yc.Clause{Cond: g.cond()}
			cl.Body = g.body(depth + 1)
			cls = append(cls, cl)
		}
		if g.c.Choose(2, "else") == 1 {
			cls = append(cls, &yc.Clause{Body: g.body(depth + 1)})
		}
		return yc.If(cls...)
	case "setT":
		return yc.Set("f", "=", yc.EBoolean(true))
	case "setF":
		return yc.Set("f", "=", yc.EBoolean(false))
	case "jump":
		return yc.Jump(g.nodes[g.c.Choose(len(g.nodes), "target")])
	case "stop":
		return yc.Stop()
	}
	if f := g.extra[kind]; f != nil {
		return f(g)
	}
	panic("unknown statement kind " + kind)
}

// program generates a whole program: 1..maxNodes nodes sharing one statement budget.
func (g *progGen) program(maxNodes int) *yc.Program {
	n := 1 + g.c.Choose(maxNodes, "nnodes")
	titles := []string{"A", "B", "C", "D"}[:n]
	g.nodes = append(append([]string{}, titles...), g.extraTargets...)
	p := &yc.Program{}
	for _, t := range titles {
		p.Nodes = append(p.Nodes, &yc.Node{Title: t, Body: g.body(0)})
	}
	return p
}

// compositions enumerates the ways of distributing n nodes over consecutive readers.
func compositions(n int) [][]int {
	if n == 0 {
		return [][]int{{}}
	}
	var out [][]int
	for first := 1; first <= n; first++ {
		for _, rest := range compositions(n - first) {
			out = append(out, append([]int{first}, rest...))
		}
	}
	return out
}

func scriptOf(srcs []string) string {
	return strings.Join(srcs, "\n~~~~ next reader ~~~~\n")
}

func intsString(a []int) string {
	s := make([]string, len(a))
	for i, v := range a {
		s[i] = fmt.Sprint(v)
	}
	return "[" + strings.Join(s, ",") + "]"
}

// goTestFor returns the source of a plain Go test that replays a sequential violation through
// the public API, without the explorer.
func goTestFor(srcs []string, seed string, args []int, note string) string {
	var b strings.Builder
	b.WriteString("package ysgo_test\n\nimport (\n\t\"io\"\n\t\"strings\"\n\t\"testing\"\n\n\t\"github.com/remieven/ysgo\"\n)\n\n")
	b.WriteString("// " + strings.ReplaceAll(note, "\n", " ") + "\n")
	b.WriteString("func TestReplay(t *testing.T) {\n\treaders := []io.Reader{\n")
	for _, s := range srcs {
		b.WriteString(fmt.Sprintf("\t\tstrings.NewReader(%q),\n", s))
	}
	b.WriteString(fmt.Sprintf("\t}\n\tdr, err := ysgo.NewDialogueRunner(nil, %q, readers...)\n\tif err != nil {\n\t\tt.Fatal(err)\n\t}\n", seed))
	b.WriteString(fmt.Sprintf("\tfor i, arg := range []int{%s} {\n\t\tel, err := dr.Next(arg)\n\t\tt.Logf(\"step %%d Next(%%d): element=%%+v err=%%v\", i, arg, el, err)\n\t}\n}\n", strings.Trim(intsString(args), "[]")))
	return b.String()
}
