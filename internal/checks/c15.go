package checks

import (
	"fmt"
	"strings"
	"time"
	"unicode/utf8"

	"github.com/remieven/ysgo/markup"
	"github.com/remieven/ysgo/verifx/internal/explore"
	"github.com/remieven/ysgo/verifx/internal/report"
)

func init() {
	register(&Check{
		Meta: report.Meta{
			Property: "C15",
			Rule: "B: every string of length <=6 (quick) / 7 (thorough) over the byte alphabet { [ ] / = \" \\ space a 1 . : 0xC3 0xA9 0xFF }; T: every assembly of <=4 (quick) / 5 (thorough) tokens from a vocabulary of marker fragments " +
				"([a, ], [/a], [/], /], =1, =1., =\"x, \", [select value=, [nomarkup], [/nomarkup], trimwhitespace=1, whitespace, multi-byte text, a character prefix ...); " +
				"N: every assembly of <=5 (quick) / 6 (thorough) items from nomarkup blocks holding fragments of multi-byte characters, markers and text; D: numeric property values with 1-25 integer digits and 0-45 fraction digits (4 digit patterns each) in three marker positions; each parsed by a fresh LineParser; H: every sequence of 2-3 lines of the C14 line alphabet (incl. refused lines) parsed by one reused LineParser, every earlier result re-checked after each later parse; oracle: returns (no panic; hangs are caught by the worker watchdog), every attribute has 0<=Position, 0<=Length, Position+Length<=characters(Text), and TextForAttribute of every returned attribute does not panic; " +
				"a case is one string; non-trivial = contains a '['",
			StatesMean:  "distinct input strings; transitions = ParseMarkup + TextForAttribute calls",
			Assumptions: []string{"strings beyond the length bound / outside the alphabets are not explored"},
		},
		QuickBudget: 180 * time.Second, ThoroughBudget: 14 * time.Minute, CrashIsViolation: true,
		Run: runC15,
	})
}

// safeParse parses s with a fresh parser and checks the safety conditions; "" means fine.
func safeParse(s string) (clause, detail string, res *markup.ParseResult, err error) {
	var lp markup.LineParser
	return safeParseWith(&lp, s)
}

func safeParseWith(lp *markup.LineParser, s string) (clause, detail string, res *markup.ParseResult, err error) {
	if p := guard(func() { res, err = lp.ParseMarkup(s) }); p != nil {
		return "markup-panic", fmt.Sprintf("ParseMarkup panicked: %v", p), nil, nil
	}
	if err != nil {
		return "", "", nil, err
	}
	if res == nil {
		return "markup-nil", "ParseMarkup returned neither a result nor an error", nil, nil
	}
	clause, detail = resultSafe(res)
	return clause, detail, res, nil
}

// resultSafe checks that a parse result can be used: every attribute lies inside the text and TextForAttribute
// returns.
func resultSafe(res *markup.ParseResult) (clause, detail string) {
	n := utf8.RuneCountInString(res.Text)
	for _, a := range res.Attributes {
		if a.Position < 0 || a.Length < 0 || a.Position+a.Length > n {
			return "markup-range", fmt.Sprintf("attribute %q has position %d length %d, the text %q has %d characters", a.Name, a.Position, a.Length, res.Text, n)
		}
		a := a
		if p := guard(func() { _ = res.TextForAttribute(a) }); p != nil {
			return "markup-textforattribute-panic", fmt.Sprintf("TextForAttribute(%+v) panicked on text %q: %v", a, res.Text, p)
		}
	}
	return "", ""
}

func c15Case(ctx *report.Ctx, c *explore.Chooser, partName, s string) {
	ctx.Current(partName + ": " + fmt.Sprintf("%q", s))
	clause, detail, res, err := safeParse(s)
	ctx.AddEvals(1, b2i(strings.Contains(s, "[")))
	ctx.AddStates(1)
	ctx.AddTransitions(1)
	ctx.AddTraces(1)
	switch {
	case err != nil:
		ctx.Count("errors_returned", 1)
		ctx.OutcomeHash(1)
	case res != nil:
		ctx.OutcomeHash(uint64(len(res.Attributes))*1000003 + uint64(len(res.Text)))
	}
	if clause != "" {
		ctx.Violation(report.Violation{Clause: clause, Witness: fmt.Sprintf("markup:%q", s), Detail: detail, Choices: c.Choices(), Part: partName, Extra: map[string]any{"input_quoted": fmt.Sprintf("%q", s)}})
	} else if ctx.WantSample() && res != nil && len(res.Attributes) >= 2 {
		ctx.Sample(map[string]any{"part": partName, "input": fmt.Sprintf("%q", s), "text": res.Text, "attributes": len(res.Attributes)})
	}
}

var c15Tokens = []string{"[a", "]", "[/a]", "[/]", "/]", "[b]", "[/b]", "=1", "=1.", "=1.5", "=\"x", "\"", "=x", " ", "a", "é", "\xff", "\\[", "\\", ":", "Bob: ",
	"[select value=", "[select value=a a=b/]", "[plural value=1", " one=\"%\"", "[nomarkup]", "[/nomarkup]", " trimwhitespace=1", " trimwhitespace=false", "[a/]", "[ordinal value=x", "[/select]", "[a=", "%", "[a x=-1]",
	"=0.3333333333333333", "=1.30000000000000004000000", "=99999999999999999999",
	" other=\"%\\\\\"", "[plural value=2", "[select value=a a=\"%\\\\\"/]"}

func runC15(ctx *report.Ctx) {
	alphabet := []byte{'[', ']', '/', '=', '"', '\\', ' ', 'a', '1', '.', ':', 0xC3, 0xA9, 0xFF}
	maxLen := report.Pick(ctx, 6, 7)
	ctx.Bound("byte_string_length", maxLen)
	part(ctx, "B", -1, func(c *explore.Chooser) {
		n := c.Choose(maxLen+1, "len")
		buf := make([]byte, 0, n)
		for i := 0; i < n; i++ {
			buf = append(buf, alphabet[c.Choose(len(alphabet), "byte")])
			if i == 1 || (n == 1 && i == 0) {
				if !c.Mine() {
					return
				}
			}
		}
		if n == 0 && !c.Mine() {
			return
		}
		c15Case(ctx, c, "B", string(buf))
	})
	// N: nomarkup blocks copy raw bytes: fragments of multi-byte characters in several blocks
	nItems := []string{"[nomarkup]\xe2\x82[/nomarkup]", "[nomarkup]\xac[/nomarkup]", "[nomarkup]\xc3[/nomarkup]", "[nomarkup]\xa9[/nomarkup]", "[nomarkup]é[/nomarkup]", "[nomarkup]\xf0\x9f[/nomarkup]", "[nomarkup]\x98\x80[/nomarkup]",
		"[a]", "[/a]", "[/]", "[b/]", "x", "\xc3", " ", "é",
		// the open form of a replacement marker hands the raw enclosed text to its processor (as the property "contents")
		"[select value=contents]\xe2\x82[/select]", "[select value=contents]\xac[/select]",
		// ... and the self-closing form takes its replacement text from a quoted property value
		"[select value=a a=\"\xe2\x82\"/]", "[select value=a a=\"\xac\"/]"}
	maxN := report.Pick(ctx, 5, 6)
	part(ctx, "N", -1, func(c *explore.Chooser) {
		n := 1 + c.Choose(maxN, "len")
		var b strings.Builder
		for i := 0; i < n; i++ {
			b.WriteString(nItems[c.Choose(len(nItems), "item")])
			if i == 1 || (n == 1 && i == 0) {
				if !c.Mine() {
					return
				}
			}
		}
		c15Case(ctx, c, "N", b.String())
	})
	// H: a reused parser: every sequence of <=3 lines of the C14 line alphabet on one LineParser value;
	// every result must be safe to use whatever was parsed (or refused) before
	hlines := c14Lines()
	part(ctx, "H", -1, func(c *explore.Chooser) {
		n := 2 + c.Choose(2, "len")
		var seq []string
		for i := 0; i < n; i++ {
			seq = append(seq, hlines[c.Choose(len(hlines), "line")])
			if i == 0 {
				if !c.Mine() {
					return
				}
			}
		}
		ctx.Current(fmt.Sprintf("H: %q", seq))
		var lp markup.LineParser
		var earlier []*markup.ParseResult
	sequence:
		for i, l := range seq {
			clause, detail, res, _ := safeParseWith(&lp, l)
			ctx.AddTransitions(1)
			if clause != "" {
				ctx.Violation(report.Violation{Clause: clause + "-reused-parser", Witness: fmt.Sprintf("markup sequence %q", seq[:i+1]), Detail: "on a LineParser that has parsed the preceding lines: " + detail, Choices: c.Choices(), Part: "H"})
				break
			}
			// the results handed out before are still held by the caller (the runner returns all options of a choice
			// together): they must stay usable after the parser was used again
			for j, old := range earlier {
				if old == nil {
					continue
				}
				if clause, detail := resultSafe(old); clause != "" {
					ctx.Violation(report.Violation{Clause: clause + "-earlier-result", Witness: fmt.Sprintf("markup sequence %q, result of line %d", seq[:i+1], j), Detail: "the result of an earlier line, read after the same LineParser parsed the later lines: " + detail, Choices: c.Choices(), Part: "H"})
					break sequence
				}
			}
			earlier = append(earlier, res)
		}
		ctx.AddEvals(1, 1)
		ctx.AddStates(1)
		ctx.AddTraces(1)
	})
	// D: digit runs. Numeric property values whose integer part has 1..25 digits and whose fraction has 0..45
	// digits, four digit patterns each, in three positions (marker property, self-closing, plural value)
	part(ctx, "D", -1, func(c *explore.Chooser) {
		ni := 1 + c.Choose(25, "int-digits")
		nf := c.Choose(46, "fraction-digits")
		if !c.Mine() {
			return
		}
		pat := func(k, n int) string {
			switch k {
			case 0:
				return strings.Repeat("3", n)
			case 1:
				return strings.Repeat("9", n)
			case 2:
				return strings.Repeat("0", n)
			}
			if n == 0 {
				return ""
			}
			return strings.Repeat("0", n-1) + "4"
		}
		num := pat(c.Choose(4, "int-pattern"), ni)
		if nf > 0 {
			num += "." + pat(c.Choose(4, "fraction-pattern"), nf)
		}
		switch c.Choose(3, "position") {
		case 0:
			c15Case(ctx, c, "D", "x [a v="+num+"]y[/a] z")
		case 1:
			c15Case(ctx, c, "D", "x [a="+num+" /] z")
		case 2:
			c15Case(ctx, c, "D", "[plural value="+num+" one=\"% a\" other=\"% b\" /]")
		}
	})
	maxTok := report.Pick(ctx, 4, 5)
	ctx.Bound("token_assembly_length", maxTok)
	ctx.Bound("token_vocabulary", len(c15Tokens))
	part(ctx, "T", -1, func(c *explore.Chooser) {
		n := 1 + c.Choose(maxTok, "len")
		var b strings.Builder
		for i := 0; i < n; i++ {
			b.WriteString(c15Tokens[c.Choose(len(c15Tokens), "token")])
			if i == 1 || (n == 1 && i == 0) {
				if !c.Mine() {
					return
				}
			}
		}
		c15Case(ctx, c, "T", b.String())
	})
}
