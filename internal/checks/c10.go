package checks

import (
	"errors"
	"fmt"
	"strings"
	"time"

	"github.com/remieven/ysgo"
	"github.com/remieven/ysgo/variable"
	"github.com/remieven/ysgo/verifx/internal/explore"
	"github.com/remieven/ysgo/verifx/internal/report"
	yc "github.com/remieven/ysgo/verifx/internal/yarncore"
	"github.com/remieven/ysgo/verifx/vsched"
)

func init() {
	register(&Check{
		Meta: report.Meta{
			Property: "C10",
			Rule: "stateless exploration of ALL interleavings (no preemption bound; with two commands: up to 2 (quick) / 4 (thorough) preemptions) of the real runner code (runner.go / command_storer.go rewritten so that every go statement, channel send, select and time.Sleep is a scheduling point of a cooperative scheduler; virtual clock) for scripts L0 <<c1 7 true>> <<set $k += 1>> L1 <<c2>> <<set $k += 1>> L2 with one or two commands; " +
				"each command gets a handler shape from {raw AddCommand with a channel already holding nil / an error; raw with the channel completed later by a completer thread (send nil, send error, close; buffered, and unbuffered with the sender parked in its send until a poll takes the value); converted func(..), func(..) error (nil / error), func(..) <-chan error, func(..) chan error; built-in wait 0 / 0.5 / 1 / 1.5 / 0.0009 / 1.0005; unregistered name}, asynchronous handlers ungated or gated (a gate that only the host opens after p in 0..2 polls); " +
				"the host thread performs up to 8 Next calls and, for wait, advances the virtual clock by steps from {n/2, n/2-1ns, 1ns}; oracle per execution: no Next ever blocks (host stuck inside the API with no enabled thread), no panic; the results follow L0 W* [E]? L1(k=1) W* [E]? L2(k=2) end with W = ErrWaitingForCommandCompletion exactly while completion cannot have been reported, E exactly once iff the command reports an error, " +
				"no W once completion has been reported and every other thread is quiet; every executed command statement invokes its handler exactly once with (7, true); wait n never completes at a virtual time below n seconds after it started; R: a pending (gated) command abandoned by RestoreAt and the same command statement executed again - the second execution must wait for its own handler; REREG: a command statement executed again (through a jump or a restore) after the host registered another handler, or a first one, under its name: the handler registered now is invoked, once; TAIL: the same with the (last) command as last statement of its node - nothing is left to run while it is pending; RF: one command of every shape and, before one of the first three polls, a RestoreAt of a snapshot naming an unknown node, which is refused and changes nothing (the pending command is still waited for, its error still surfaced once); plus a free-running -race pass over the same shapes; " +
				"a case is one complete schedule; non-trivial = schedule with at least one poll answered by ErrWaitingForCommandCompletion",
			StatesMean:  "distinct complete schedules (executions) of the rewritten code; transitions = scheduling points granted",
			Assumptions: []string{"sequentially consistent executions at the granularity of the hooked operations; unsynchronised accesses between hooks are the subject of the separate -race pass", "unbuffered channels are modelled as a rendezvous between a parked sender and the polling select", "the rewriting rules are syntactic and local (cmd/vrewrite); the rewritten package is the code that runs"},
		},
		QuickBudget: 180 * time.Second, ThoroughBudget: 14 * time.Minute, CrashIsViolation: true, ProcsPerWorker: 1, RacePass: true,
		Run: runC10,
	})
}

type c10Shape struct {
	name    string
	async   bool // completion may come after the handler returned
	gatable bool
	fails   bool
	wait    float64 // >=0: built-in wait n
	unreg   bool
}

var c10Shapes = []c10Shape{
	{name: "raw-prefilled-nil", wait: -1},
	{name: "raw-prefilled-error", fails: true, wait: -1},
	{name: "raw-later-nil", async: true, gatable: true, wait: -1},
	{name: "raw-later-error", async: true, gatable: true, fails: true, wait: -1},
	{name: "raw-later-close", async: true, gatable: true, wait: -1},
	{name: "converted-no-result", async: true, gatable: true, wait: -1},
	{name: "converted-error-nil", async: true, gatable: true, wait: -1},
	{name: "converted-error-err", async: true, gatable: true, fails: true, wait: -1},
	{name: "converted-recv-chan-later", async: true, gatable: true, wait: -1},
	{name: "converted-chan-prefilled-error", fails: true, wait: -1},
	{name: "wait-0", async: true, wait: 0},
	{name: "wait-0.5", async: true, wait: 0.5},
	{name: "wait-1", async: true, wait: 1},
	{name: "wait-1.5", async: true, wait: 1.5},
	{name: "wait-0.0009", async: true, wait: 0.0009}, // not a whole number of milliseconds
	{name: "wait-1.0005", async: true, wait: 1.0005},
	{name: "unregistered", fails: true, unreg: true, wait: -1},
	{name: "raw-unbuffered-later-nil", async: true, gatable: true, wait: -1},
	{name: "raw-unbuffered-later-error", async: true, gatable: true, fails: true, wait: -1},
	{name: "converted-unbuffered-chan-later", async: true, gatable: true, wait: -1},
}

var errC10 = errors.New("handler reports failure")

type c10Cmd struct {
	shape    c10Shape
	gated    bool
	openAt   int // the host opens the gate after this many polls answered W
	gate     chan struct{}
	invoked  int
	argsOK   bool
	gateOpen bool
	started  bool
	startClk time.Duration
}

func (cmd *c10Cmd) text(name string) string {
	if cmd.shape.wait >= 0 {
		return fmt.Sprintf("<<wait %v>>", cmd.shape.wait)
	}
	return "<<" + name + " 7 true>>"
}

// install registers the handler of the command on the runner.
func (cmd *c10Cmd) install(dr *ysgo.DialogueRunner, name string) {
	rawArgsOK := func(args []*variable.Value) bool {
		return len(args) == 2 && args[0] != nil && args[0].Number != nil && *args[0].Number == 7 && args[1] != nil && args[1].Boolean != nil && *args[1].Boolean
	}
	wait := func() {
		if cmd.gated {
			vsched.Recv(cmd.gate)
		}
	}
	later := func(deliver func(ch chan error)) chan error {
		ch := make(chan error, 1)
		vsched.Go(func() {
			wait()
			deliver(ch)
		})
		return ch
	}
	switch cmd.shape.name {
	case "raw-prefilled-nil", "raw-prefilled-error":
		dr.AddCommand(name, func(args []*variable.Value) <-chan error {
			cmd.invoked++
			cmd.argsOK = rawArgsOK(args)
			ch := make(chan error, 1)
			if cmd.shape.fails {
				ch <- errC10
			} else {
				ch <- nil
			}
			return ch
		})
	case "raw-later-nil", "raw-later-error", "raw-later-close":
		dr.AddCommand(name, func(args []*variable.Value) <-chan error {
			cmd.invoked++
			cmd.argsOK = rawArgsOK(args)
			return later(func(ch chan error) {
				switch cmd.shape.name {
				case "raw-later-nil":
					vsched.Send(ch, nil)
				case "raw-later-error":
					vsched.Send(ch, errC10)
				default:
					vsched.Close(ch)
				}
			})
		})
	case "raw-unbuffered-later-nil", "raw-unbuffered-later-error":
		// the common idiom: ch := make(chan error); go func() { work(); ch <- err }()
		dr.AddCommand(name, func(args []*variable.Value) <-chan error {
			cmd.invoked++
			cmd.argsOK = rawArgsOK(args)
			ch := make(chan error)
			vsched.Go(func() {
				wait()
				if cmd.shape.fails {
					vsched.Send(ch, errC10)
				} else {
					vsched.Send(ch, nil)
				}
			})
			return ch
		})
	case "converted-unbuffered-chan-later":
		dr.ConvertAndAddCommand(name, func(i int, b bool) chan error {
			cmd.invoked++
			cmd.argsOK = i == 7 && b
			ch := make(chan error)
			vsched.Go(func() {
				wait()
				vsched.Send(ch, nil)
			})
			return ch
		})
	case "converted-no-result":
		dr.ConvertAndAddCommand(name, func(i int, b bool) {
			cmd.invoked++
			cmd.argsOK = i == 7 && b
			wait()
		})
	case "converted-error-nil", "converted-error-err":
		dr.ConvertAndAddCommand(name, func(i int, b bool) error {
			cmd.invoked++
			cmd.argsOK = i == 7 && b
			wait()
			if cmd.shape.fails {
				return errC10
			}
			return nil
		})
	case "converted-recv-chan-later":
		dr.ConvertAndAddCommand(name, func(i int, b bool) <-chan error {
			cmd.invoked++
			cmd.argsOK = i == 7 && b
			return later(func(ch chan error) { vsched.Send(ch, nil) })
		})
	case "converted-chan-prefilled-error":
		dr.ConvertAndAddCommand(name, func(i int, b bool) chan error {
			cmd.invoked++
			cmd.argsOK = i == 7 && b
			ch := make(chan error, 1)
			ch <- errC10
			return ch
		})
	}
}

type c10Config struct {
	cmds []*c10Cmd
	// refuseBefore > 0: before the call of Next with this index the host tries to restore a snapshot that names an unknown
	// node; the restore is refused and changes nothing (a command that is pending stays pending)
	refuseBefore int
	// tailLast: the last command is the last statement of the node (nothing is left to run while it is pending)
	tailLast bool
}

func (cfg *c10Config) describe() string {
	var s []string
	for _, c := range cfg.cmds {
		d := c.shape.name
		if c.gated {
			d += fmt.Sprintf("(gated, opened after %d waiting polls)", c.openAt)
		}
		s = append(s, d)
	}
	if cfg.refuseBefore > 0 {
		s = append(s, fmt.Sprintf("refused RestoreAt before call %d", cfg.refuseBefore+1))
	}
	if cfg.tailLast {
		s = append(s, "the last command is the last statement of the node")
	}
	return strings.Join(s, " ; ")
}

func (cfg *c10Config) script() string {
	var b strings.Builder
	b.WriteString("title: A\n---\n<<set $k = 0>>\nL0\n")
	for i, c := range cfg.cmds {
		b.WriteString(c.text(fmt.Sprintf("c%d", i+1)) + "\n")
		if cfg.tailLast && i == len(cfg.cmds)-1 {
			break
		}
		b.WriteString("<<set $k += 1>>\n" + fmt.Sprintf("L%d {$k}\n", i+1))
	}
	b.WriteString("===\n")
	return b.String()
}

// c10Body is the host thread. It returns the observed results and a violation ("" = none).
func c10Body(cfg *c10Config, maxCalls int, results *[]string) (clause, detail string) {
	dr, err := ysgo.NewDialogueRunner(nil, "abc", strings.NewReader(cfg.script()))
	if err != nil {
		return "harness", "script does not load: " + err.Error()
	}
	for i, c := range cfg.cmds {
		if !c.shape.unreg && c.shape.wait < 0 {
			c.install(dr, fmt.Sprintf("c%d", i+1))
		}
	}
	// expectation state
	stage := 0 // 0: L0 expected; then per command i: 2i+1 = command i in progress, 2i+2 = line after it delivered
	cur := -1  // command in progress
	seenW, seenE := 0, false
	for call := 0; call < maxCalls; call++ {
		// host actions between polls
		if cur >= 0 {
			c := cfg.cmds[cur]
			if c.gated && !c.gateOpen && seenW >= c.openAt {
				vsched.Send(c.gate, struct{}{})
				c.gateOpen = true
				*results = append(*results, "open-gate")
			}
			if c.shape.wait > 0 && seenW > 0 {
				n := time.Duration(c.shape.wait * float64(time.Second))
				steps := []time.Duration{n / 2, n/2 - 1, 1}
				d := steps[vsched.Choose(len(steps), "clock-step")]
				vsched.Advance(d)
				*results = append(*results, fmt.Sprintf("clock+%v", d))
			}
		}
		// time passes between two polls: the other threads get a chance to run even if Next itself
		// contains no scheduling point
		vsched.Point("between-polls")
		if cfg.refuseBefore > 0 && call == cfg.refuseBefore {
			vsched.EnterAPI()
			err := dr.RestoreAt(&ysgo.Snapshot{CurrentNode: "no such node", Variables: map[string]variable.Value{}, VisitedNodes: map[string]int{"A": 3}})
			vsched.LeaveAPI()
			*results = append(*results, "refused-restore")
			if err == nil {
				return "refused-restore-accepted", "RestoreAt of a snapshot that names an unknown node reported success"
			}
			vsched.Point("between-polls")
		}
		quiet := vsched.OthersQuiet() && !vsched.Sleeping()
		clock := vsched.Now()
		vsched.EnterAPI()
		el, err := dr.Next(0)
		vsched.LeaveAPI()
		var r string
		switch {
		case errors.Is(err, ysgo.ErrWaitingForCommandCompletion):
			r = "W"
		case err != nil:
			r = "E"
		case el == nil:
			r = "end"
		case el.Line != nil:
			r = el.Line.Text
		default:
			r = "?"
		}
		*results = append(*results, r)
		// invocation bookkeeping: a command is invoked at most once, and not before its statement is reached
		for i, c := range cfg.cmds {
			if c.invoked > 1 {
				return "handler-invoked-twice", fmt.Sprintf("the handler of command %d was invoked %d times", i+1, c.invoked)
			}
			if c.invoked == 1 && !c.argsOK {
				return "handler-arguments", fmt.Sprintf("the handler of command %d did not receive (7, true)", i+1)
			}
			if c.invoked == 1 && stage < 2*i+1 {
				return "handler-invoked-early", fmt.Sprintf("the handler of command %d ran before its statement was reached", i+1)
			}
		}
		if stage == 0 {
			if r != "L0" {
				return "trace", fmt.Sprintf("expected L0 first, got %s", r)
			}
			stage = 1
			if len(cfg.cmds) == 0 {
				stage = 99
			}
			continue
		}
		if stage == 99 {
			if r != "end" {
				return "trace", fmt.Sprintf("expected the end, got %s", r)
			}
			continue
		}
		// a command is in progress or about to start with this call
		if cur < 0 {
			cur = (stage - 1) / 2
			seenW, seenE = 0, false
			cfg.cmds[cur].started = true
			cfg.cmds[cur].startClk = clock
		}
		c := cfg.cmds[cur]
		wantLine := fmt.Sprintf("L%d %d", cur+1, cur+1)
		if cfg.tailLast && cur == len(cfg.cmds)-1 {
			wantLine = "end" // nothing follows the command: once it has completed the dialogue ends
		}
		canBeDone := !c.shape.async || !c.gated || c.gateOpen
		mustWait := c.shape.async && ((c.gated && !c.gateOpen) || (c.shape.wait > 0 && clock < c.startClk+time.Duration(c.shape.wait*float64(time.Second))))
		switch r {
		case "W":
			if !c.shape.async {
				return "waiting-on-completed-command", fmt.Sprintf("command %d (%s) had completed when its handler returned, yet Next answered ErrWaitingForCommandCompletion", cur+1, c.shape.name)
			}
			if seenE {
				return "waiting-after-error", "Next answered ErrWaitingForCommandCompletion after the error of the command had been surfaced"
			}
			if canBeDone && quiet && seenW > 0 {
				return "still-waiting", fmt.Sprintf("command %d (%s): completion has been reported and every other thread is quiet, yet Next still answers ErrWaitingForCommandCompletion (poll %d)", cur+1, c.shape.name, seenW+1)
			}
			seenW++
		case "E":
			if mustWait {
				return "resumed-early", fmt.Sprintf("command %d (%s) cannot have completed yet, Next returned an error instead of ErrWaitingForCommandCompletion", cur+1, c.shape.name)
			}
			if !c.shape.fails {
				return "unexpected-error", fmt.Sprintf("command %d (%s) reports no error, Next returned one", cur+1, c.shape.name)
			}
			if seenE {
				return "error-surfaced-twice", fmt.Sprintf("the error of command %d was surfaced more than once", cur+1)
			}
			seenE = true
		case wantLine:
			if mustWait {
				if c.shape.wait > 0 {
					return "wait-too-short", fmt.Sprintf("<<wait %v>> started at virtual time %v was reported complete at %v, earlier than %v s", c.shape.wait, c.startClk, clock, c.shape.wait)
				}
				return "resumed-early", fmt.Sprintf("command %d (%s) cannot have completed yet (gate closed), the dialogue resumed", cur+1, c.shape.name)
			}
			if c.shape.fails && !seenE {
				return "error-not-surfaced", fmt.Sprintf("command %d (%s) reports an error that Next never returned", cur+1, c.shape.name)
			}
			if !c.shape.unreg && c.shape.wait < 0 && c.invoked != 1 {
				return "handler-not-invoked-once", fmt.Sprintf("command %d was executed, its handler was invoked %d times", cur+1, c.invoked)
			}
			cur = -1
			stage += 2
			if (stage-1)/2 >= len(cfg.cmds) {
				stage = 99
			}
		default:
			return "trace", fmt.Sprintf("while command %d (%s) was in progress: expected W, an error or %q, got %q", cur+1, c.shape.name, wantLine, r)
		}
	}
	return "", ""
}

func runC10(ctx *report.Ctx) {
	if !vsched.Rewritten {
		ctx.HarnessError("C10 needs the binary built with the scheduler overlay (./check builds it): vsched.Rewritten is false")
		return
	}
	for _, f := range vsched.RewrittenFiles {
		ctx.Note("rewritten: %s", f)
	}
	maxCalls := 8
	ctx.Bound("next_calls_per_execution", maxCalls)
	bound2 := report.Pick(ctx, 2, 4)
	ctx.Bound("preemption_bound", fmt.Sprintf("one command: none (all interleavings); two commands: %d", bound2))
	second := []int{-1, 5, 7, 3, 12, 16} // none, converted-no-result, converted-error-err, raw-later-error, wait-1, raw-unbuffered-later-error
	if ctx.Quick() {
		second = []int{-1, 5, 3}
	}
	selfTests := 0
	var runCfg func(c *explore.Chooser, partName string, cfg *c10Config)
	runCfg = func(c *explore.Chooser, partName string, cfg *c10Config) {
		cfgChoices := len(c.Choices())
		ctx.Current(partName + ": " + cfg.describe())
		var results []string
		var clause, detail string
		pb := -1
		if len(cfg.cmds) == 2 {
			pb = bound2
		}
		ex := vsched.Run(vsched.Options{Choose: c.Choose, PreemptionBound: pb}, func() {
			clause, detail = c10Body(cfg, maxCalls, &results)
		})
		// determinism self-test: the first executions of every worker are replayed from their recorded
		// choice vector and must meet the same scheduling points and observations
		if selfTests < 40 && ctx.Replay == nil {
			selfTests++
			fixed := c.Choices()
			var results2 []string
			var log2 []string
			explore.Run(explore.Options{Fixed: fixed}, func(c2 *explore.Chooser) {
				cfg2 := &c10Config{}
				for _, cm := range cfg.cmds {
					cfg2.cmds = append(cfg2.cmds, &c10Cmd{shape: cm.shape, gated: cm.gated, openAt: cm.openAt, gate: make(chan struct{}, 1)})
				}
				// consume the configuration choices of the prefix exactly as the original case did
				i := 0
				ch := func(n int, label string) int {
					v := 0
					if i < len(fixed) {
						v = fixed[i]
					}
					i++
					return v
				}
				i = cfgChoices
				ex2 := vsched.Run(vsched.Options{Choose: ch, PreemptionBound: pb}, func() { c10Body(cfg2, maxCalls, &results2) })
				for _, e := range ex2.Log {
					log2 = append(log2, e.String())
				}
			})
			var log1 []string
			for _, e := range ex.Log {
				log1 = append(log1, e.String())
			}
			if strings.Join(results, " ") != strings.Join(results2, " ") || strings.Join(log1, " ") != strings.Join(log2, " ") {
				ctx.HarnessError("C10: replaying a recorded schedule gave another execution (nondeterminism not under control): %s :: %v vs %v", cfg.describe(), results, results2)
				return
			}
			ctx.Count("schedules_replayed_identically", 1)
		}
		ws := 0
		for _, r := range results {
			if r == "W" {
				ws++
			}
		}
		ctx.AddEvals(1, b2i(ws > 0))
		ctx.AddStates(1)
		ctx.AddTransitions(int64(ex.Points))
		ctx.AddTraces(1)
		ctx.Count("context_switches", int64(ex.Switches))
		ctx.Outcome(cfg.describe() + " => " + strings.Join(results, " ") + " " + ex.Outcome)
		if clause == "harness" {
			ctx.HarnessError("C10: %s", detail)
			return
		}
		if clause == "" && ex.Outcome != "" {
			switch {
			case ex.Outcome == "api-blocks":
				clause, detail = "next-blocks", "Next did not return: the host thread is inside Next and no thread can run (Next waits for the command instead of answering ErrWaitingForCommandCompletion)"
			case strings.HasPrefix(ex.Outcome, "panic"):
				clause, detail = "panic", ex.Outcome+" "+strings.Join(ex.Panics, " ; ")
			default:
				ctx.HarnessError("C10: execution ended in %q (%s; results %v)", ex.Outcome, cfg.describe(), results)
				return
			}
		}
		if clause != "" {
			var sched []string
			for _, e := range ex.Log {
				sched = append(sched, e.String())
			}
			ctx.Violation(report.Violation{Clause: clause, Witness: cfg.describe() + " :: results " + strings.Join(results, " "),
				Detail:  detail + " -- schedule (thread:operation) " + strings.Join(sched, " "),
				Choices: c.Choices(), Part: partName, Extra: map[string]any{"scripts": []string{cfg.script()}, "handlers": cfg.describe(), "results": results, "schedule": sched}})
		} else if ctx.WantSample() && ws >= 2 && len(cfg.cmds) == 2 {
			var sched []string
			for _, e := range ex.Log {
				sched = append(sched, e.String())
			}
			ctx.Sample(map[string]any{"handlers": cfg.describe(), "results": results, "schedule": strings.Join(sched, " ")})
		}
	}
	part(ctx, "S", -1, func(c *explore.Chooser) {
		mk := func(si int, label string) *c10Cmd {
			sh := c10Shapes[si]
			cmd := &c10Cmd{shape: sh, gate: make(chan struct{}, 1)}
			if sh.gatable && c.Choose(2, label+"-gated") == 1 {
				cmd.gated = true
				cmd.openAt = c.Choose(3, label+"-open-after")
			}
			return cmd
		}
		cfg := &c10Config{}
		cfg.cmds = append(cfg.cmds, mk(c.Choose(len(c10Shapes), "shape1"), "c1"))
		if s2 := second[c.Choose(len(second), "shape2")]; s2 >= 0 {
			cfg.cmds = append(cfg.cmds, mk(s2, "c2"))
		}
		if !c.Mine() {
			return
		}
		runCfg(c, "S", cfg)
	})
	// RF: one command of every shape; before one of the first polls the host tries to restore a snapshot that names an
	// unknown node: the restore is refused and the pending command is still waited for, its error still surfaced once
	part(ctx, "RF", -1, func(c *explore.Chooser) {
		sh := c10Shapes[c.Choose(len(c10Shapes), "shape1")]
		cmd := &c10Cmd{shape: sh, gate: make(chan struct{}, 1)}
		if sh.gatable && c.Choose(2, "c1-gated") == 1 {
			cmd.gated = true
			cmd.openAt = c.Choose(3, "c1-open-after")
		}
		cfg := &c10Config{cmds: []*c10Cmd{cmd}, refuseBefore: 1 + c.Choose(3, "refused-restore-before")}
		if !c.Mine() {
			return
		}
		runCfg(c, "RF", cfg)
	})
	// TAIL: the command is the last statement of the node (optionally after a first command): while it is pending nothing
	// is left to run, and still Next answers "waiting" until it has completed, then reports its error once, then the end
	part(ctx, "TAIL", -1, func(c *explore.Chooser) {
		mk := func(si int, label string) *c10Cmd {
			sh := c10Shapes[si]
			cmd := &c10Cmd{shape: sh, gate: make(chan struct{}, 1)}
			if sh.gatable && c.Choose(2, label+"-gated") == 1 {
				cmd.gated = true
				cmd.openAt = c.Choose(3, label+"-open-after")
			}
			return cmd
		}
		cfg := &c10Config{tailLast: true}
		if c.Choose(2, "first-command") == 1 {
			cfg.cmds = append(cfg.cmds, mk(5, "c0")) // converted, no result
		}
		cfg.cmds = append(cfg.cmds, mk(c.Choose(len(c10Shapes), "shape1"), "c1"))
		if !c.Mine() {
			return
		}
		runCfg(c, "TAIL", cfg)
	})
	// REREG: a command statement executed again after the host has registered another handler under its name (or a first
	// handler, the name having been unknown the first time): the handler registered now is invoked, once; the statement is
	// reached again through a jump or through RestoreAt (handlers that complete before they return: no thread is involved)
	part(ctx, "REREG", -1, func(c *explore.Chooser) {
		firstKnown := c.Choose(2, "first-execution-has-a-handler") == 1
		route1 := c.Choose(2, "first-route")
		route2 := c.Choose(2, "second-route")
		viaRestore := c.Choose(2, "again-through") == 1
		other := c.Choose(2, "another-command-in-between") == 1
		if !c.Mine() {
			return
		}
		w := fmt.Sprintf("<<c1 7 true>> executed twice; first execution has a handler: %v (route %d); then a handler is registered (route %d); reached again through restore: %v; another command in between: %v", firstKnown, route1, route2, viaRestore, other)
		ctx.Current("REREG: " + w)
		src := "title: A\n---\nL0\n<<c1 7 true>>\nL1\n"
		if other {
			src += "<<c2 1 false>>\n"
		}
		src += "<<jump A>>\n===\n"
		dr, err := ysgo.NewDialogueRunner(nil, "abc", strings.NewReader(src))
		if err != nil {
			ctx.HarnessError("C10: script does not load: %v", err)
			return
		}
		var log []string
		reg := func(name, tag string, route int) {
			if route == 0 {
				dr.AddCommand(name, func(args []*variable.Value) <-chan error {
					log = append(log, tag)
					ch := make(chan error, 1)
					ch <- nil
					return ch
				})
				return
			}
			dr.ConvertAndAddCommand(name, func(n int, b bool) chan error {
				log = append(log, fmt.Sprintf("%s(%d,%v)", tag, n, b))
				ch := make(chan error, 1)
				ch <- nil
				return ch
			})
		}
		tagOf := func(tag string, route int) string {
			if route == 0 {
				return tag
			}
			return tag + "(7,true)"
		}
		reg("c2", "other", 0)
		if firstKnown {
			reg("c1", "h1", route1)
		}
		snap := dr.Snapshot()
		ctx.AddEvals(1, 1)
		ctx.AddStates(1)
		ctx.AddTraces(1)
		fail := func(detail string) {
			ctx.Violation(report.Violation{Clause: "handler-not-invoked-once", Witness: w, Detail: detail + fmt.Sprintf(" (invocations %v)", log), Choices: c.Choices(), Part: "REREG", Extra: map[string]any{"scripts": []string{src}}})
		}
		next := func() string {
			el, err := dr.Next(0)
			ctx.AddTransitions(1)
			switch {
			case err != nil:
				return "E"
			case el == nil:
				return "end"
			case el.Line != nil:
				return el.Line.Text
			}
			return "?"
		}
		if r := next(); r != "L0" {
			fail("expected L0, got " + r)
			return
		}
		r := next()
		if !firstKnown {
			if r != "E" {
				fail("an unregistered command must be an error, got " + r)
				return
			}
			r = next()
		}
		if r != "L1" {
			fail("expected L1 after the first execution, got " + r)
			return
		}
		want := []string{}
		if firstKnown {
			want = append(want, tagOf("h1", route1))
		}
		reg("c1", "h2", route2)
		if viaRestore {
			if err := dr.RestoreAt(snap); err != nil {
				ctx.HarnessError("C10: RestoreAt failed: %v", err)
				return
			}
		} else if other {
			want = append(want, "other")
		}
		if r := next(); r != "L0" {
			fail("expected L0 again, got " + r)
			return
		}
		if r := next(); r != "L1" {
			fail("second execution of the command: expected L1, got " + r)
			return
		}
		want = append(want, tagOf("h2", route2))
		if strings.Join(log, ";") != strings.Join(want, ";") {
			fail(fmt.Sprintf("handler invocations expected %v", want))
		}
	})
	// R: a pending command abandoned by RestoreAt, then the same command statement executed again: the second
	// execution must wait for its own handler (no result of the abandoned execution may be taken for it)
	rShapes := []struct {
		name  string
		fails bool
	}{{"converted-no-result", false}, {"converted-error-nil", false}, {"converted-error-err", true}, {"raw-later", false}}
	part(ctx, "R", -1, func(c *explore.Chooser) {
		sh := rShapes[c.Choose(len(rShapes), "shape")]
		openFirstEarly := c.Choose(2, "open-gate-of-abandoned-execution") == 0
		if !c.Mine() {
			return
		}
		desc := fmt.Sprintf("%s, restored while pending, gate of the abandoned execution opened %s", sh.name, map[bool]string{true: "before the second execution", false: "after the second execution started"}[openFirstEarly])
		ctx.Current("R: " + desc)
		var results []string
		clause, detail := "", ""
		ex := vsched.Run(vsched.Options{Choose: c.Choose, PreemptionBound: report.Pick(ctx, 3, 4)}, func() {
			script := "title: A\n---\n<<set $k = 0>>\nL0\n<<c1 7 true>>\n<<set $k += 1>>\nL1 {$k}\n===\n"
			dr, err := ysgo.NewDialogueRunner(nil, "abc", strings.NewReader(script))
			if err != nil {
				clause, detail = "harness", err.Error()
				return
			}
			gates := []chan struct{}{make(chan struct{}, 1), make(chan struct{}, 1), make(chan struct{}, 1)}
			invoked := 0
			started := make(chan int, 4)
			body := func() error {
				invoked++
				n := invoked
				vsched.Send(started, n) // tells the host that this execution's handler is running
				if n < len(gates) {
					vsched.Recv(gates[n])
				}
				if sh.fails {
					return errC10
				}
				return nil
			}
			switch sh.name {
			case "converted-no-result":
				dr.ConvertAndAddCommand("c1", func(i int, b bool) { body() })
			case "raw-later":
				dr.AddCommand("c1", func(args []*variable.Value) <-chan error {
					ch := make(chan error, 1)
					vsched.Go(func() { vsched.Send(ch, body()) })
					return ch
				})
			default:
				dr.ConvertAndAddCommand("c1", func(i int, b bool) error { return body() })
			}
			next := func() string {
				vsched.Point("between-polls")
				vsched.EnterAPI()
				el, err := dr.Next(0)
				vsched.LeaveAPI()
				r := "?"
				switch {
				case errors.Is(err, ysgo.ErrWaitingForCommandCompletion):
					r = "W"
				case err != nil:
					r = "E"
				case el == nil:
					r = "end"
				case el.Line != nil:
					r = el.Line.Text
				}
				results = append(results, r)
				return r
			}
			snap := dr.Snapshot()
			if r := next(); r != "L0" {
				clause, detail = "trace", "expected L0, got "+r
				return
			}
			if r := next(); r != "W" {
				clause, detail = "trace", "the gated command must be pending, got "+r
				return
			}
			vsched.Recv(started) // the handler of the first execution is running (and waits for gate 1)
			if err := dr.RestoreAt(snap); err != nil {
				clause, detail = "harness", "RestoreAt failed: "+err.Error()
				return
			}
			results = append(results, "restore")
			if openFirstEarly {
				vsched.Send(gates[1], struct{}{})
				results = append(results, "open-gate-1")
			}
			if r := next(); r != "L0" {
				clause, detail = "trace", "after the restore expected L0 again, got "+r
				return
			}
			r := next() // the second execution of the command starts here; its handler waits for gate 2
			if r == "W" {
				vsched.Recv(started) // the handler of the second execution is running
			}
			if !openFirstEarly {
				vsched.Send(gates[1], struct{}{})
				results = append(results, "open-gate-1")
			}
			for polls := 0; ; polls++ {
				if r != "W" {
					clause, detail = "resumed-early", fmt.Sprintf("the second execution of the command was reported complete (%s) while its own handler was still waiting: the result of the abandoned execution was taken for it", r)
					return
				}
				if polls == 2 {
					break
				}
				r = next()
			}
			vsched.Send(gates[2], struct{}{})
			results = append(results, "open-gate-2")
			sawE := false
			for i := 0; i < 5; i++ {
				r = next()
				switch {
				case r == "W":
				case r == "E" && sh.fails && !sawE:
					sawE = true
				case r == "L1 1":
					if sh.fails && !sawE {
						clause, detail = "error-not-surfaced", "the error of the second execution was never returned"
					} else if invoked != 2 {
						clause, detail = "handler-not-invoked-once", fmt.Sprintf("two executions of the command statement, %d invocations of the handler", invoked)
					}
					return
				default:
					clause, detail = "trace", "unexpected result "+r
					return
				}
			}
		})
		ctx.AddEvals(1, 1)
		ctx.AddStates(1)
		ctx.AddTransitions(int64(ex.Points))
		ctx.AddTraces(1)
		ctx.Outcome("R " + desc + " => " + strings.Join(results, " ") + " " + ex.Outcome)
		if clause == "harness" {
			ctx.HarnessError("C10 R: %s", detail)
			return
		}
		if clause == "" && ex.Outcome != "" {
			if ex.Outcome == "api-blocks" {
				clause, detail = "next-blocks", "Next did not return (host inside Next, no thread can run)"
			} else if strings.HasPrefix(ex.Outcome, "panic") {
				clause, detail = "panic", ex.Outcome
			}
		}
		if clause != "" {
			ctx.Violation(report.Violation{Clause: clause, Witness: "R: " + desc + " :: results " + strings.Join(results, " "), Detail: detail, Choices: c.Choices(), Part: "R",
				Extra: map[string]any{"results": results}})
		}
	})
	_ = yc.OEnd
}
