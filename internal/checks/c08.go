package checks

import (
	"fmt"
	"io"
	"reflect"
	"sort"
	"strings"
	"time"

	"github.com/remieven/ysgo/internal/tree"
	"github.com/remieven/ysgo/verifx/internal/explore"
	"github.com/remieven/ysgo/verifx/internal/report"
	yc "github.com/remieven/ysgo/verifx/internal/yarncore"
)

func init() {
	register(&Check{
		Meta: report.Meta{
			Property: "C08",
			Rule: "base programs: every program of <=3 (quick) / 4 (thorough) statements over {line, option group with bodies, if/elseif/else with operator-bearing conditions, set with and/or/comparison chains, command, call, jump, stop} on 1-2 nodes, and nesting shapes to depth 3; " +
				"for each, every global layout of a list (indent unit 1,2,3,5,8 spaces or tab, per-depth varying widths, CRLF, CR, indented if-bodies, full and redundant parentheses, every operator spelling, padding inside commands at each kind of site, every reader composition, and combinations) is compared with the canonical rendering, " +
				"and under the global layouts {canonical, CRLF, CR, tab (+ indented if-bodies in the thorough tier)} every single site deviation (quick) / every pair (thorough): a blank, whitespace-only or comment line (at indentation 0, of the next line, deeper) in every gap, a trailing comment on every line that admits one, file-level hashtag lines before the first node of a reader; readers: for every composition of the nodes into readers, every non-empty subset of the readers opened by a file-level hashtag line, hashtags + blank + comment lines, a blank line or a comment line; " +
				"oracle: reflect.DeepEqual of tree.FromReaders for the two renderings, and equality of the complete observation trees (all choice paths on the real runner) for the global layouts; a case is one (program, rendering) pair; non-trivial = rendering differs from the canonical text",
			StatesMean:  "distinct (program, rendering) pairs compared with the canonical rendering; transitions = parses + real Next calls",
			Assumptions: []string{"small-scope hypothesis on program size", "traces of site-deviated renderings are not walked when the parsed dialogues are deeply equal (the runner is a deterministic function of the parsed dialogue: C09)"},
		},
		QuickBudget: 180 * time.Second, ThoroughBudget: 14 * time.Minute, CrashIsViolation: true,
		Run: runC08,
	})
}

type namedLayout struct {
	name string
	lay  *yc.Layout
}

func spellAll(alt int) map[string]int {
	sp := map[string]int{}
	for op, list := range yc.Spellings {
		if alt < len(list) {
			sp[op] = alt
		} else {
			sp[op] = len(list) - 1
		}
	}
	return sp
}

func globalLayouts() []namedLayout {
	return []namedLayout{
		{"crlf", &yc.Layout{EOL: "\r\n"}},
		{"cr", &yc.Layout{EOL: "\r"}},
		{"indent-1", &yc.Layout{Unit: " "}},
		{"indent-2", &yc.Layout{Unit: "  "}},
		{"indent-3", &yc.Layout{Unit: "   "}},
		{"indent-5", &yc.Layout{Unit: "     "}},
		{"indent-8", &yc.Layout{Unit: "        "}},
		{"indent-tab", &yc.Layout{Unit: "\t"}},
		{"indent-varying", &yc.Layout{Indents: []string{"", " ", "    ", "     ", "        ", "           "}}},
		{"indent-varying-2", &yc.Layout{Indents: []string{"", "       ", "        ", "         ", "          ", "            "}}},
		{"if-bodies-indented", &yc.Layout{IfIndent: true}},
		{"if-bodies-indented-tab", &yc.Layout{IfIndent: true, Unit: "\t"}},
		{"if-bodies-indented-1", &yc.Layout{IfIndent: true, Unit: " "}},
		{"parens-full", &yc.Layout{Paren: yc.ParenFull}},
		{"parens-redundant", &yc.Layout{Paren: yc.ParenRedundant}},
		{"spelling-1", &yc.Layout{Spell: spellAll(1)}},
		{"spelling-2", &yc.Layout{Spell: spellAll(2)}},
		{"spelling-1-parens-full", &yc.Layout{Spell: spellAll(1), Paren: yc.ParenFull}},
		{"pad-open", &yc.Layout{Pad: map[string]int{"open": 2}}},
		{"pad-close", &yc.Layout{Pad: map[string]int{"close": 2}}},
		{"pad-keyword", &yc.Layout{Pad: map[string]int{"kw": 2}}},
		{"pad-operators", &yc.Layout{Pad: map[string]int{"op": 2}}},
		{"pad-jump-keyword", &yc.Layout{Pad: map[string]int{"jumpkw": 1}}},
		{"crlf-tab", &yc.Layout{EOL: "\r\n", Unit: "\t"}},
		{"crlf-if-indented", &yc.Layout{EOL: "\r\n", IfIndent: true}},
		{"cr-indent-2", &yc.Layout{EOL: "\r", Unit: "  "}},
	}
}

func siteHosts() []namedLayout {
	return []namedLayout{
		{"canonical", &yc.Layout{}},
		{"crlf", &yc.Layout{EOL: "\r\n"}},
		{"cr", &yc.Layout{EOL: "\r"}},
		{"indent-tab", &yc.Layout{Unit: "\t"}},
		{"if-bodies-indented", &yc.Layout{IfIndent: true}},
	}
}

// slowStart delays its first Read a little (a reader that is not ready at once): whoever reads the readers in order
// does not care.
type slowStart struct {
	r       io.Reader
	started bool
}

func (s *slowStart) Read(p []byte) (int, error) {
	if !s.started {
		s.started = true
		time.Sleep(2 * time.Millisecond)
	}
	return s.r.Read(p)
}

// sharedStreamBudget bounds the number of shared-stream cases per worker (each waits 2 ms per reader).
var sharedStreamBudget = 400

// brokenReader delivers the beginning of a script and then fails.
type brokenReader struct{ sent bool }

func (b *brokenReader) Read(p []byte) (int, error) {
	if !b.sent {
		b.sent = true
		return copy(p, "title: Sta"), nil
	}
	return 0, fmt.Errorf("connection reset")
}

func parseTree(srcs []string, afterFailedLoads ...bool) (d *tree.Dialogue, err error, pan string) {
	defer func() {
		if r := recover(); r != nil {
			d, err, pan = nil, nil, fmt.Sprint(r)
		}
	}()
	// whatever was loaded (or failed to load) before has no bearing on what a script means: every load of the check is
	// preceded by one that fails half way through its input, and by one that is refused for its syntax
	// (the canonical rendering, which the others are compared with, is loaded without that)
	if len(afterFailedLoads) > 0 && afterFailedLoads[0] {
		func() {
			defer func() { recover() }()
			tree.FromReaders(strings.NewReader("title: Z\n---\n-> o\n    in\n<<if>>\n"))
			tree.FromReaders(&brokenReader{})
		}()
	}
	rs := make([]io.Reader, len(srcs))
	for i, s := range srcs {
		rs[i] = strings.NewReader(s)
	}
	d, err = tree.FromReaders(rs...)
	return d, err, ""
}

func tracesString(fr *yc.FreeResult) string {
	var keys []string
	for k := range fr.Traces {
		keys = append(keys, k)
	}
	sort.Strings(keys)
	var b strings.Builder
	for _, k := range keys {
		b.WriteString(k + ": " + fr.Traces[k] + "\n")
	}
	return b.String()
}

var c08Host = &yc.HostSpec{
	Funcs: []yc.FuncSpec{{Name: "probe", Echo: true}, {Name: "note"}},
	Cmds:  []yc.CmdSpec{{Name: "act"}},
	Vars:  map[string]yc.Value{"f": yc.Bool(false), "n": yc.Num(3), "b": yc.Bool(true)},
}

func c08Storer() func() *yc.HostSpec { return func() *yc.HostSpec { return c08Host } }

func c08FreeOpts() yc.FreeOpts {
	return yc.FreeOpts{MaxSteps: 12, Setup: func(r *yc.Real, log *[]string) {
		c08Host.Install(r.DR, log)
	}}
}

type c08Base struct {
	p        *yc.Program
	canon    []string
	tree     *tree.Dialogue
	normTree *tree.Dialogue // second parse of the canonical rendering, normalised by normTree
	traces   string
}

// normTree trims, in place, the whitespace at the end of the text of every line statement.
func normTree(d *tree.Dialogue) {
	var line func(ls *tree.LineStatement)
	var stmts func(ss []*tree.Statement)
	line = func(ls *tree.LineStatement) {
		if ls == nil || ls.Text == nil || len(ls.Text.Elements) == 0 {
			return
		}
		last := ls.Text.Elements[len(ls.Text.Elements)-1]
		if last.Expression == nil {
			last.Text = strings.TrimRight(last.Text, " \t")
			if last.Text == "" {
				ls.Text.Elements = ls.Text.Elements[:len(ls.Text.Elements)-1]
			}
		}
	}
	stmts = func(ss []*tree.Statement) {
		for _, s := range ss {
			switch {
			case s.LineStatement != nil:
				line(s.LineStatement)
			case s.ShortcutOptionStatement != nil:
				for _, o := range s.ShortcutOptionStatement.Options {
					line(o.LineStatement)
					stmts(o.Statements)
				}
			case s.IfStatement != nil:
				for _, c := range s.IfStatement.Clauses {
					stmts(c.Statements)
				}
			}
		}
	}
	for i := range d.Nodes {
		stmts(d.Nodes[i].Statements)
	}
}

func visualize(s string) string {
	return strings.NewReplacer("\r", "␍", "\t", "␉").Replace(s)
}

// compare parses the deviated rendering and compares it with the canonical one. walk says
// whether the observation trees are compared too.
func (b *c08Base) compare(ctx *report.Ctx, c *explore.Chooser, partName, devName string, srcs []string, walk bool) {
	ctx.Current(partName + " [" + devName + "]: " + visualize(scriptOf(srcs)))
	same := len(srcs) == len(b.canon)
	if same {
		for i := range srcs {
			if srcs[i] != b.canon[i] {
				same = false
			}
		}
	}
	ctx.AddEvals(1, b2i(!same))
	ctx.AddStates(1)
	ctx.AddTransitions(1)
	fail := func(clause, detail string) {
		ctx.Violation(report.Violation{Clause: clause, Witness: devName + " :: " + visualize(scriptOf(srcs)),
			Detail:  detail + " -- canonical rendering: " + visualize(scriptOf(b.canon)),
			Choices: c.Choices(), Part: partName, Extra: map[string]any{"scripts": srcs, "canonical": b.canon, "deviation": devName}})
	}
	d, err, pan := parseTree(srcs, true)
	switch {
	case pan != "":
		fail("layout-panic", "loading the deviated rendering panicked: "+pan)
		return
	case err != nil:
		fail("layout-load-error", "the deviated rendering is refused: "+err.Error())
		return
	case !reflect.DeepEqual(d, b.tree):
		// classify: does the difference vanish when the whitespace at the end of the text of
		// every line statement is disregarded?
		normTree(d)
		if reflect.DeepEqual(d, b.normTree) {
			fail("layout-tree-trailing-space", "the parsed dialogue differs from the one of the canonical rendering, but only by whitespace at the end of the text of a line statement (unobservable in traces: texts are trimmed)")
		} else {
			fail("layout-tree", "the parsed dialogue differs from the one of the canonical rendering")
		}
		return
	}
	if walk {
		fr := yc.FreeWalk(srcs, c08FreeOpts())
		ctx.AddTransitions(fr.Steps)
		ctx.AddTraces(fr.Paths)
		if fr.Panic != "" || fr.LoadErr != nil || fr.LoadPanic != "" {
			fail("layout-trace", fmt.Sprintf("running the deviated rendering failed: %s %v %s", fr.Panic, fr.LoadErr, fr.LoadPanic))
			return
		}
		if t := tracesString(fr); t != b.traces {
			fail("layout-trace", "observation trees differ: canonical\n"+b.traces+"deviated\n"+t)
		}
	}
}

func newC08Base(ctx *report.Ctx, p *yc.Program) *c08Base {
	b := &c08Base{p: p, canon: yc.Render(p, nil)}
	d, err, pan := parseTree(b.canon)
	if err != nil || pan != "" {
		ctx.HarnessError("C08: canonical rendering does not load: %v %s\n%s", err, pan, scriptOf(b.canon))
		return nil
	}
	b.tree = d
	b.normTree, _, _ = parseTree(b.canon)
	normTree(b.normTree)
	fr := yc.FreeWalk(b.canon, c08FreeOpts())
	if fr.Panic != "" {
		// a panic on the canonical rendering is C06's subject; layout comparisons are still meaningful on trees
		b.traces = "panic"
	} else {
		b.traces = tracesString(fr)
	}
	ctx.Outcome(b.traces)
	return b
}

// gapLines returns the candidate lines to insert before a line whose indentation is ind.
func gapLines(ind, unit string) []string {
	return []string{"", "   ", "\t", "// c", ind + "// c", ind + unit + "// c", ind + unit + unit + "   "}
}

func (b *c08Base) siteDeviations(ctx *report.Ctx, c *explore.Chooser, partName string, host namedLayout, budget int) {
	// enumerate through a nested exploration with a deviation budget: at every site either nothing or one deviation
	lines := yc.Lines(b.p, host.lay)
	unit := host.lay.Unit
	if unit == "" {
		unit = "    "
	}
	explore.Run(explore.Options{Budget: budget}, func(ic *explore.Chooser) {
		lay := *host.lay
		lay.Gaps = map[int]map[int][]string{}
		lay.Trailing = map[int]map[int]string{}
		var devs []string
		for r, rl := range lines {
			lay.Gaps[r] = map[int][]string{}
			lay.Trailing[r] = map[int]string{}
			for i, ln := range rl {
				ind := strings.Repeat(unit, ln.Depth)
				cands := gapLines(ind, unit)
				if i == 0 {
					// file-level hashtags may precede the first node of every reader (they are not part of the dialogue)
					cands = append(cands, "#filetag", "#chapter:two #b")
				}
				if k := ic.ChooseDev(1+len(cands), "gap"); k > 0 {
					lay.Gaps[r][i] = []string{cands[k-1]}
					devs = append(devs, fmt.Sprintf("line %q before line %d", cands[k-1], i))
				}
				if ln.CanComment {
					if ic.ChooseDev(2, "trailing") == 1 {
						lay.Trailing[r][i] = "t"
						devs = append(devs, fmt.Sprintf("trailing comment on line %d", i))
					}
				}
			}
		}
		if len(devs) == 0 && host.name == "canonical" {
			return
		}
		srcs := yc.Render(b.p, &lay)
		b.compare(ctx, c, partName, host.name+"+"+strings.Join(devs, "+"), srcs, false)
	})
}

func (b *c08Base) all(ctx *report.Ctx, c *explore.Chooser, partName string, siteBudget int) {
	ctx.Count("programs", 1)
	for _, g := range globalLayouts() {
		b.compare(ctx, c, partName, g.name, yc.Render(b.p, g.lay), true)
	}
	if len(b.p.Nodes) > 1 {
		for _, comp := range compositions(len(b.p.Nodes)) {
			if len(comp) == 1 {
				continue
			}
			q := *b.p
			q.Split = comp
			b.compare(ctx, c, partName, "readers-"+intsString(comp), yc.Render(&q, nil), true)
			b.compare(ctx, c, partName, "readers-"+intsString(comp)+"-crlf", yc.Render(&q, &yc.Layout{EOL: "\r\n"}), false)
		}
	}
	hosts := siteHosts()
	if ctx.Quick() {
		hosts = hosts[:4]
	}
	for _, h := range hosts {
		if ctx.Expired() {
			ctx.Capped("deadline inside " + partName)
			return
		}
		b.siteDeviations(ctx, c, partName, h, siteBudget)
	}
	if ctx.WantSample() && yc.CountStmts(b.p.Nodes[0].Body) >= 3 {
		ctx.Sample(map[string]any{"part": partName, "canonical": scriptOf(b.canon), "example_deviation": visualize(scriptOf(yc.Render(b.p, &yc.Layout{EOL: "\r\n", Unit: "\t", IfIndent: true, Paren: yc.ParenRedundant, Spell: spellAll(1)})))})
	}
}

func runC08(ctx *report.Ctx) {
	siteBudget := report.Pick(ctx, 1, 2)
	ctx.Bound("site_deviation_budget", siteBudget)
	condExprs := []func() *yc.Expr{
		func() *yc.Expr { return yc.EBoolean(true) },
		func() *yc.Expr { return yc.EVariable("f") },
		func() *yc.Expr {
			return yc.EBinary("or", yc.EBinary("and", yc.EVariable("f"), yc.EVariable("b")), yc.ENotOf(yc.EVariable("f")))
		},
		func() *yc.Expr {
			return yc.EBinary("and", yc.EBoolean(false), yc.EBinary("or", yc.EVariable("b"), yc.EBoolean(true)))
		},
		func() *yc.Expr {
			return yc.EBinary("==", yc.EBinary("<=", yc.EVariable("n"), yc.EBinary("*", yc.ENumber(2), yc.ENumber(2))), yc.EBinary("!=", yc.EVariable("n"), yc.ENumber(3)))
		},
	}
	extra := map[string]func(g *progGen) *yc.Stmt{
		"setx": func(g *progGen) *yc.Stmt {
			switch g.c.Choose(3, "setx") {
			case 0:
				return yc.Set("x", "=", yc.EBinary("-", yc.EBinary("-", yc.EVariable("n"), yc.ENumber(1)), yc.EBinary("%", yc.ENumber(7), yc.ENumber(4))))
			case 1:
				return yc.Set("b", "=", yc.EBinary("xor", yc.EBinary("or", yc.EBoolean(true), yc.EVariable("f")), yc.EBinary(">=", yc.EVariable("n"), yc.ENumber(3))))
			}
			return yc.Set("n", "+=", yc.EBinary("*", yc.ENegate(yc.EVariable("n")), yc.EBinary("+", yc.ENumber(1), yc.ENumber(2))))
		},
		"cmd": func(g *progGen) *yc.Stmt {
			return yc.Command("act", yc.CmdArg{Word: "w"}, yc.CmdArg{E: yc.EBinary(">", yc.EVariable("n"), yc.ENumber(1))})
		},
		"call": func(g *progGen) *yc.Stmt {
			return yc.Call("probe", yc.EBinary("<", yc.ENumber(1), yc.ENumber(2)), yc.EString("s"))
		},
		"linex": func(g *progGen) *yc.Stmt {
			g.lineNo++
			return yc.LineOf(&yc.LineSpec{Parts: []yc.Part{{Src: fmt.Sprintf("L%d ", g.lineNo), Want: ""}, {E: yc.EBinary("+", yc.EVariable("n"), yc.ENumber(1))}}, Tags: []string{"t"}})
		},
		"optc": func(g *progGen) *yc.Stmt {
			g.lineNo++
			return yc.Options(&yc.Option{Line: &yc.LineSpec{Parts: []yc.Part{{Src: fmt.Sprintf("O%d", g.lineNo)}}, Cond: yc.EBinary("and", yc.EVariable("b"), yc.ENotOf(yc.EVariable("f")))}, Body: g.body(1)},
				&yc.Option{Line: yc.TextLine(fmt.Sprintf("P%d", g.lineNo))})
		},
	}
	size := report.Pick(ctx, 2, 3)
	part(ctx, "programs", -1, func(c *explore.Chooser) {
		g := &progGen{c: c, rem: size, kinds: []string{"line", "opts", "if", "setx", "cmd", "jump", "stop", "call", "linex", "optc"}, maxDepth: 2, maxOpts: 2, maxCl: 2, conds: condExprs, extra: extra}
		p := g.program(report.Pick(ctx, 1, 2))
		if !c.Mine() {
			return
		}
		if _, div := yc.ModelPaths(p, c08Host, yc.WalkOpts{MaxSteps: 12, MaxJumps: 3}); div {
			ctx.Skip("jump cycle that never yields")
			return
		}
		if b := newC08Base(ctx, p); b != nil {
			b.all(ctx, c, "programs", siteBudget)
		}
	})
	// readers: nodes with indented blocks distributed over several readers (the state of one reader's
	// lexing must not leak into the next)
	part(ctx, "readers", -1, func(c *explore.Chooser) {
		nn := 2 + c.Choose(2, "nnodes")
		p := &yc.Program{}
		for i := 0; i < nn; i++ {
			t := []string{"A", "B", "C"}[i]
			var body []*yc.Stmt
			switch c.Choose(4, "body") {
			case 0:
				body = []*yc.Stmt{yc.Line(t + "1")}
			case 1:
				body = []*yc.Stmt{yc.Options(&yc.Option{Line: yc.TextLine(t + "o"), Body: []*yc.Stmt{yc.Line(t + "in")}}, &yc.Option{Line: yc.TextLine(t + "p")}), yc.Line(t + "after")}
			case 2:
				body = []*yc.Stmt{yc.Options(&yc.Option{Line: yc.TextLine(t + "o"), Body: []*yc.Stmt{yc.Options(&yc.Option{Line: yc.TextLine(t + "deep"), Body: []*yc.Stmt{yc.Line(t + "deepest")}})}})}
			case 3:
				body = []*yc.Stmt{yc.Line(t + "1"), yc.Options(&yc.Option{Line: yc.TextLine(t + "last"), Body: []*yc.Stmt{yc.Line(t + "end of file inside a body")}})}
			}
			if i+1 < nn {
				body = append(body, yc.Jump([]string{"A", "B", "C"}[i+1]))
			}
			p.Nodes = append(p.Nodes, &yc.Node{Title: t, Body: body})
		}
		if !c.Mine() {
			return
		}
		b := newC08Base(ctx, p)
		if b == nil {
			return
		}
		ctx.Count("programs", 1)
		for _, comp := range compositions(nn) {
			if len(comp) == 1 {
				continue
			}
			for _, g := range []namedLayout{{"lf", &yc.Layout{}}, {"crlf", &yc.Layout{EOL: "\r\n"}}, {"tab", &yc.Layout{Unit: "\t"}}} {
				q := *p
				q.Split = comp
				b.compare(ctx, c, "readers", "readers-"+intsString(comp)+"-"+g.name, yc.Render(&q, g.lay), true)
			}
			// the readers are read one after the other, in order: readers that are successive views of one stream
			// (io.LimitReader over the first part, then the stream itself) give the script passed in one piece
			if sharedStreamBudget > 0 {
				sharedStreamBudget--
				q := *p
				q.Split = comp
				parts := yc.Render(&q, nil)
				stream := strings.NewReader(strings.Join(parts, ""))
				var rs []io.Reader
				for k, part := range parts {
					if k == len(parts)-1 {
						rs = append(rs, stream)
					} else {
						rs = append(rs, &slowStart{r: io.LimitReader(stream, int64(len(part)))})
					}
				}
				d, err := tree.FromReaders(rs...)
				ctx.AddEvals(1, 1)
				ctx.AddStates(1)
				ctx.AddTransitions(1)
				if err != nil || !reflect.DeepEqual(d, b.tree) {
					ctx.Violation(report.Violation{Clause: "layout-readers-shared-stream", Witness: "readers-" + intsString(comp) + " as successive views of one stream :: " + visualize(scriptOf(parts)),
						Detail: fmt.Sprintf("the nodes spread over readers that are successive views of one stream (each reader but the last is an io.LimitReader over it) do not give the dialogue of the canonical rendering: error %v", err), Choices: c.Choices(), Part: "readers"})
				}
			}
			// what may precede the first node of a script may precede the first node of every reader: file-level
			// hashtags, comments, blank lines - every non-empty subset of the readers gets each kind of opening
			for _, opening := range [][]string{{"#filetag"}, {"#chapter:two #b", "", "// c"}, {""}, {"// only a comment"}} {
				for mask := 1; mask < 1<<len(comp); mask++ {
					q := *p
					q.Split = comp
					lay := &yc.Layout{Gaps: map[int]map[int][]string{}}
					for r := range comp {
						if mask&(1<<r) != 0 {
							lay.Gaps[r] = map[int][]string{0: opening}
						}
					}
					b.compare(ctx, c, "readers", fmt.Sprintf("readers-%s-opening-%q-of-readers-%b", intsString(comp), opening, mask), yc.Render(&q, lay), false)
				}
			}
		}
	})
	depth := report.Pick(ctx, 2, 3)
	part(ctx, "nesting", -1, func(c *explore.Chooser) {
		n := 0
		line := func() *yc.Stmt { n++; return yc.Line(fmt.Sprintf("L%d", n)) }
		var shape func(d int) []*yc.Stmt
		shape = func(d int) []*yc.Stmt {
			var body []*yc.Stmt
			if d == depth || c.Choose(2, "before") == 1 {
				body = append(body, line())
			}
			if d > 0 {
				switch c.Choose(3, "nest") {
				case 0:
					body = append(body, yc.Options(&yc.Option{Line: yc.TextLine(fmt.Sprintf("O%da", d)), Body: shape(d - 1)},
						&yc.Option{Line: yc.TextLine(fmt.Sprintf("O%db", d)), Body: []*yc.Stmt{line()}}))
				case 1:
					body = append(body, yc.If(&yc.Clause{Cond: yc.EVariable("b"), Body: shape(d - 1)}, &yc.Clause{Body: []*yc.Stmt{line()}}))
				case 2:
					body = append(body, yc.Options(&yc.Option{Line: yc.TextLine(fmt.Sprintf("O%dc", d)), Body: []*yc.Stmt{line(), yc.If(&yc.Clause{Cond: yc.EVariable("f"), Body: []*yc.Stmt{line()}}, &yc.Clause{Body: shape(d - 1)})}}))
				}
			} else {
				body = append(body, line())
			}
			if c.Choose(2, "after") == 1 {
				body = append(body, line())
			}
			return body
		}
		p := &yc.Program{Nodes: []*yc.Node{{Title: "A", Body: shape(depth)}}}
		if !c.Mine() {
			return
		}
		if b := newC08Base(ctx, p); b != nil {
			b.all(ctx, c, "nesting", siteBudget)
		}
	})
}
