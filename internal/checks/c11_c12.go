package checks

import (
	"fmt"
	"sort"
	"strings"
	"time"

	"github.com/remieven/ysgo/variable"
	"github.com/remieven/ysgo/verifx/internal/dump"
	"github.com/remieven/ysgo/verifx/internal/explore"
	"github.com/remieven/ysgo/verifx/internal/report"
	yc "github.com/remieven/ysgo/verifx/internal/yarncore"
)

func init() {
	register(&Check{
		Meta: report.Meta{
			Property: "C11",
			Rule: "every jump graph over 2-3 nodes whose bodies are drawn from {status line printing visited/visited_count of every node and of an unknown name, jump by name, jump by expression (also one reading the count of the node being left, and one naming an unknown node), " +
				"jump inside an option body / if body, option group with a non-jumping branch}, plus a snapshot / restore family (RS: every save point x every receiving runner state x every continuation on scripts mixing tracked and never-tracked nodes, see C07), every assignment of tracking in {absent, never, always}, every path up to the jump horizon; after every step Snapshot().VisitedNodes and the rendered counts are compared with model counters; " +
				"non-trivial = path with at least one jump",
			StatesMean:  "(program, trace prefix) pairs; transitions = real Next calls compared with the model",
			Assumptions: []string{"small-scope hypothesis", "canonical layout", "the count of a node changes when the jump is performed (after its target expression has been evaluated and found to name a node)"},
		},
		QuickBudget: 180 * time.Second, ThoroughBudget: 12 * time.Minute, CrashIsViolation: true,
		Run: runC11,
	})
	register(&Check{
		Meta: report.Meta{
			Property: "C12",
			Rule: "every program of the C01 families F1/F2 (plus commands and calls) in which an end is reachable - node end and <<stop>> at every nesting depth with statements after the stop and after the enclosing bodies - every path to the first end, " +
				"then further Next(a) for every a in {0,1,7,-1} from the ended state, deduplicated by a reflective dump of the whole runner and storer (a call that leaves the state unchanged closes the search for every longer sequence; otherwise every sequence up to the bound is replayed); each must report the end again with handler log and storer unchanged; non-trivial = path reaching an end",
			StatesMean:  "(program, trace prefix incl. calls after the end) pairs; transitions = real Next calls",
			Assumptions: []string{"small-scope hypothesis", "canonical layout"},
		},
		QuickBudget: 180 * time.Second, ThoroughBudget: 12 * time.Minute, CrashIsViolation: true,
		Run: runC12,
	})
}

func statusLine(names []string) *yc.Stmt {
	ls := &yc.LineSpec{}
	for _, n := range names {
		ls.Parts = append(ls.Parts, yc.Part{Src: n + "=", Want: n + "="}, yc.Part{E: yc.ECallOf("visited_count", yc.EString(n))},
			yc.Part{Src: "/", Want: "/"}, yc.Part{E: yc.ECallOf("visited", yc.EString(n))}, yc.Part{Src: " ", Want: " "})
	}
	return yc.LineOf(ls)
}

func visitsStep(m *yc.Machine, r *yc.Real, mo *yc.Obs, ro yc.RealObs) string {
	var snap map[string]int
	if p := guard(func() { snap = r.DR.Snapshot().VisitedNodes }); p != nil {
		return fmt.Sprintf("Snapshot panicked: %v", p)
	}
	var keys []string
	for k := range m.Visits {
		keys = append(keys, k)
	}
	for k := range snap {
		if _, ok := m.Visits[k]; !ok {
			keys = append(keys, k)
		}
	}
	sort.Strings(keys)
	for _, k := range keys {
		if m.Visits[k] != snap[k] {
			return fmt.Sprintf("Snapshot().VisitedNodes[%q] = %d, the dialogue has left that node through a jump %d time(s)", k, snap[k], m.Visits[k])
		}
	}
	return ""
}

func runC11(ctx *report.Ctx) {
	maxJumps := report.Pick(ctx, 5, 7)
	wo := yc.WalkOpts{MaxSteps: 30, MaxJumps: maxJumps, CompareStore: false, CompareLog: false, StrictErrors: true, Step: visitsStep}
	ctx.Bound("jumps_per_path", maxJumps)
	// restore family: counts are unaffected by anything but jumps and restores
	restoreExplore(ctx, "RS", c11RestoreScripts(), &yc.HostSpec{Vars: map[string]yc.Value{"gold": yc.Num(1)}}, report.Pick(ctx, c07Bounds{pre: 4, mid: 1, recv: 3, cont: 3}, c07Bounds{pre: 6, mid: 2, recv: 4, cont: 5}))
	trackings := []string{"", "never", "always"}
	nodeCounts := report.Pick(ctx, []int{2, 3}, []int{2, 3})
	for _, nn := range nodeCounts {
		nn := nn
		names := []string{"N0", "N1", "N2"}[:nn]
		probeNames := append(append([]string{}, names...), "nowhere", "n0") // "n0": not a node, though it reads like one
		// body shapes of a node; t is a target chosen separately
		nShapes := 8
		if nn == 3 && ctx.Quick() {
			nShapes = 5
		}
		part(ctx, fmt.Sprintf("G%d", nn), -1, func(c *explore.Chooser) {
			p := &yc.Program{}
			for i := 0; i < nn; i++ {
				node := &yc.Node{Title: names[i], Tracking: trackings[c.Choose(3, "tracking")]}
				body := []*yc.Stmt{statusLine(probeNames)}
				target := func() string { return names[c.Choose(nn, "target")] }
				switch c.Choose(nShapes, "shape") {
				case 0: // end of node
				case 1:
					body = append(body, yc.Jump(target()))
				case 2:
					body = append(body, yc.Options(
						&yc.Option{Line: yc.TextLine("go"), Body: []*yc.Stmt{yc.Jump(target())}},
						&yc.Option{Line: yc.TextLine("stay"), Body: []*yc.Stmt{statusLine(names)}}), statusLine(names))
				case 3:
					body = append(body, yc.JumpE(yc.EString(target())))
				case 4: // jump by an expression that reads the count of the node being left
					body = append(body, yc.JumpE(yc.EBinary("+", yc.EString("N"), yc.ECallOf("string", yc.ECallOf("visited_count", yc.EString(names[i]))))))
				case 5:
					body = append(body, yc.If(&yc.Clause{Cond: yc.ECallOf("visited", yc.EString(target())), Body: []*yc.Stmt{yc.Jump(target())}},
						&yc.Clause{Body: []*yc.Stmt{statusLine(names), yc.Jump(target())}}))
				case 6: // a jump that fails (unknown node, or the title of a node in another case), then a status line, then a real jump
					bad := []string{"nowhere", strings.ToLower(names[i])}[c.Choose(2, "unknown-target")]
					body = append(body, yc.JumpE(yc.EString(bad)), statusLine(probeNames), yc.Jump(target()))
				case 7: // jump out of an if inside an option body
					body = append(body, yc.Options(&yc.Option{Line: yc.TextLine("deep"), Body: []*yc.Stmt{
						yc.If(&yc.Clause{Cond: yc.EBoolean(true), Body: []*yc.Stmt{yc.Jump(target())}}), statusLine(names)}}), statusLine(names))
				}
				node.Body = body
				p.Nodes = append(p.Nodes, node)
			}
			if !c.Mine() {
				return
			}
			walkProgram(ctx, c, fmt.Sprintf("G%d", nn), p, nil, wo, nil)
		})
	}
}

// c11RestoreScripts: visit counting across restores (tracked / never tracked nodes on both sides
// of the restore, jump by an expression that reads the count of the node being left).
func c11RestoreScripts() []*yc.Program {
	names := []string{"N0", "N1", "N2"}
	return []*yc.Program{
		// a jump that fails inside a never tracked node (the dialogue stays there), between the save point and the restore
		{Nodes: []*yc.Node{
			{Title: "N0", Body: []*yc.Stmt{statusLine(names), yc.Jump("N1")}},
			{Title: "N1", Tracking: "never", Body: []*yc.Stmt{statusLine(names), yc.Jump("nowhere"), statusLine(names), yc.Options(&yc.Option{Line: yc.TextLine("back"), Body: []*yc.Stmt{yc.Jump("N0")}}, &yc.Option{Line: yc.TextLine("on"), Body: []*yc.Stmt{yc.JumpE(yc.EString("void")), yc.Jump("N2")}})}},
			{Title: "N2", Body: []*yc.Stmt{statusLine(names), yc.Jump("N0")}},
		}},
		{Nodes: []*yc.Node{
			{Title: "N0", Body: []*yc.Stmt{statusLine(names), yc.Jump("N1")}},
			{Title: "N1", Tracking: "never", Body: []*yc.Stmt{statusLine(names), yc.Options(&yc.Option{Line: yc.TextLine("back"), Body: []*yc.Stmt{yc.Jump("N0")}}, &yc.Option{Line: yc.TextLine("on"), Body: []*yc.Stmt{yc.Jump("N2")}})}},
			{Title: "N2", Tracking: "always", Body: []*yc.Stmt{statusLine(names), yc.Jump("N1")}},
		}},
		{Nodes: []*yc.Node{
			{Title: "N0", Tracking: "never", Body: []*yc.Stmt{statusLine(names), yc.Jump("N1")}},
			{Title: "N1", Body: []*yc.Stmt{statusLine(names), yc.JumpE(yc.EBinary("+", yc.EString("N"), yc.ECallOf("string", yc.EBinary("%", yc.ECallOf("visited_count", yc.EString("N1")), yc.ENumber(3)))))}},
			{Title: "N2", Body: []*yc.Stmt{statusLine(names), yc.Jump("N0")}},
		}},
	}
}

func runC12(ctx *report.Ctx) {
	after := report.Pick(ctx, 3, 4)
	wo := yc.WalkOpts{MaxSteps: 12, MaxJumps: 3, ArgVariants: []int{0, 1, 7, -1}, CompareStore: true, CompareLog: true, StrictErrors: true,
		AfterEnd: after, AfterEndArgs: []int{0, 1, 7, -1},
		StateKey: func(r *yc.Real, st variable.Storer) string { return dump.Values(r.DR, st) }}
	ctx.Bound("calls_after_end", after)
	// is <<stop word>> a stop on this tree? (The property speaks of <<stop>>; if a stop written with arguments
	// reports the end, that end must be absorbing like any other; if it is refused instead, it is not generated.)
	stopWithArgs := false
	if r, err, pan := yc.NewReal([]string{"title: A\n---\n<<stop now>>\nafter\n===\n"}, "abc", nil); err == nil && pan == "" {
		if ro := r.Next(0); ro.K == yc.OEnd {
			stopWithArgs = true
		}
	}
	ctx.Bound("stop_with_arguments_reports_the_end", stopWithArgs)
	size := report.Pick(ctx, 3, 4)
	ctx.Bound("E1", fmt.Sprintf("<=%d statements over 1..2 nodes, alphabet line/opts(1-2, bodies)/if/set/jump/stop/command/call/command completed by the host after one poll", size))
	extra := map[string]func(g *progGen) *yc.Stmt{
		"cmd":  func(g *progGen) *yc.Stmt { return yc.Command("act", yc.CmdArg{Word: fmt.Sprint(g.lineNo)}) },
		"call": func(g *progGen) *yc.Stmt { return yc.Call("note", yc.ENumber(float64(g.lineNo))) },
		"setn": func(g *progGen) *yc.Stmt { return yc.Set("n", "=", yc.ENumber(float64(1+g.lineNo))) },
		"dcmd": func(g *progGen) *yc.Stmt { return yc.Command("later", yc.CmdArg{Word: fmt.Sprint(g.lineNo)}) },
		// commands that report completion by closing their channel (at once / after the first poll)
		"ccmd": func(g *progGen) *yc.Stmt {
			return yc.Command([]string{"laterclose", "closed"}[g.c.Choose(2, "close-kind")], yc.CmdArg{Word: fmt.Sprint(g.lineNo)})
		},
		// stop written with arguments: they are evaluated and the dialogue stops all the same
		"stopargs": func(g *progGen) *yc.Stmt {
			if g.c.Choose(2, "stop-arg") == 0 {
				return yc.Command("stop", yc.CmdArg{Word: "now"})
			}
			return yc.Command("stop", yc.CmdArg{E: yc.EVariable("f")})
		},
	}
	part(ctx, "E1", -1, func(c *explore.Chooser) {
		kinds := []string{"line", "opts", "if", "stop", "cmd", "setn", "jump", "call", "dcmd", "ccmd"}
		if stopWithArgs {
			kinds = append(kinds, "stopargs")
		}
		g := &progGen{c: c, rem: size, kinds: kinds, maxDepth: 2, maxOpts: 2, maxCl: 1, conds: condsF[:2], extra: extra}
		p := g.program(report.Pick(ctx, 1, 2))
		if !c.Mine() {
			return
		}
		walkProgram(ctx, c, "E1", p, stdHost, wo, nil)
	})
	// E2: stop / end at every nesting depth with effects remaining after the stop and after every
	// enclosing body
	depth := report.Pick(ctx, 2, 3)
	ctx.Bound("E2", fmt.Sprintf("single node, nesting of option groups / ifs to depth %d; innermost body ends with stop | nothing | option without body; command, set and line after every body", depth))
	part(ctx, "E2", -1, func(c *explore.Chooser) {
		n := 0
		eff := func() []*yc.Stmt {
			n++
			switch c.Choose(3, "effect") {
			case 0:
				return []*yc.Stmt{yc.Command([]string{"act", "laterclose"}[n%2], yc.CmdArg{Word: fmt.Sprint(n)}), yc.Line(fmt.Sprintf("L%d", n))}
			case 1:
				return []*yc.Stmt{yc.Set("n", "=", yc.ENumber(float64(n))), yc.Call("note", yc.ENumber(float64(n)))}
			}
			return nil
		}
		var shape func(d int) []*yc.Stmt
		shape = func(d int) []*yc.Stmt {
			var body []*yc.Stmt
			if d > 0 {
				switch c.Choose(3, "nest") {
				case 0:
					body = append(body, yc.Options(&yc.Option{Line: yc.TextLine(fmt.Sprintf("O%da", d)), Body: shape(d - 1)},
						&yc.Option{Line: yc.TextLine(fmt.Sprintf("O%db", d)), Body: eff()}))
				case 1:
					body = append(body, yc.If(&yc.Clause{Cond: yc.EBoolean(true), Body: shape(d - 1)}))
				case 2:
					body = append(body, yc.If(&yc.Clause{Cond: yc.EBoolean(false), Body: eff()}, &yc.Clause{Body: shape(d - 1)}))
				}
			} else {
				ntails := 3
				if stopWithArgs {
					ntails = 5
				}
				switch c.Choose(ntails, "tail") {
				case 0:
					body = append(body, yc.Stop())
				case 3:
					body = append(body, yc.Command("stop", yc.CmdArg{Word: "now"}))
				case 4:
					body = append(body, yc.Command("stop", yc.CmdArg{E: yc.EVariable("f")}))
				case 1:
					body = append(body, yc.Options(&yc.Option{Line: yc.TextLine("Ox")}, &yc.Option{Line: yc.TextLine("Oy"), Body: eff()}))
				}
			}
			return append(body, eff()...)
		}
		p := &yc.Program{Nodes: []*yc.Node{{Title: "A", Body: shape(depth)}, {Title: "B", Body: []*yc.Stmt{yc.Line("inB"), yc.Command("beep")}}}}
		if !c.Mine() {
			return
		}
		walkProgram(ctx, c, "E2", p, stdHost, wo, nil)
	})
}
