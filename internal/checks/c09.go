package checks

import (
	"bufio"
	"bytes"
	"fmt"
	"github.com/remieven/ysgo"
	"hash/fnv"
	"math"
	"math/rand"
	"os"
	"os/exec"
	"sort"
	"strings"
	"time"

	"github.com/remieven/ysgo/variable"
	"github.com/remieven/ysgo/verifx/internal/explore"
	"github.com/remieven/ysgo/verifx/internal/report"
	yc "github.com/remieven/ysgo/verifx/internal/yarncore"
)

func init() {
	register(&Check{
		Meta: report.Meta{
			Property: "C09",
			Rule: "D: every program of <=2 (quick) / 3 (thorough) statements over an alphabet of statements using dice / random / random_range in lines, sets, option conditions, if conditions, jump expressions, a drawing loop and a marked-up line with replacement markers in open and self-closing form, x seeds (\"0\", \"00\", every one-character seed, a list of two-character, long and overflow-length seeds), all choice paths; " +
				"an execution of a case = the run from the start plus the run of the same dialogue opened from a snapshot the host built itself (several variables, one entry holding no value, restored after one step); each case is executed once as baseline and again after every history of <=2 unrelated activities from {another runner with the same seed drawing numbers, a runner with another seed, draws from and re-seeding of the global math/rand source, a failed load, the case itself}; complete observation trees, errors and final variable contents must be identical; " +
				"P: the digests of all cases are recomputed in 3 fresh child processes (two of which first run unrelated activity of their own); R: for every seed incl. the empty one, dice(n), random_range(a,b) (incl. spans beyond 2^31) and random() drawn 50 times each and checked for integrality and range; " +
				"a case is one (program, seed, history); non-trivial = the program draws at least one random number (always)",
			StatesMean:  "distinct (program, seed, history) executions compared with their baseline; transitions = real Next calls",
			Assumptions: []string{"3 fresh child processes stand for 'different processes'", "seeds outside the listed alphabet are not explored"},
		},
		QuickBudget: 180 * time.Second, ThoroughBudget: 12 * time.Minute, CrashIsViolation: true, Workers: 16,
		Run: runC09,
	})
}

func c09Statements() []func(i int) []*yc.Stmt {
	ex := func(e *yc.Expr) yc.Part { return yc.Part{E: e} }
	tx := func(s string) yc.Part { return yc.Part{Src: s, Want: s} }
	return []func(i int) []*yc.Stmt{
		func(i int) []*yc.Stmt {
			return []*yc.Stmt{yc.LineOf(&yc.LineSpec{Parts: []yc.Part{tx("d="), ex(yc.ECallOf("dice", yc.ENumber(6))), tx(" r="), ex(yc.ECallOf("random")), tx(" rr="), ex(yc.ECallOf("random_range", yc.ENumber(1), yc.ENumber(3)))}})}
		},
		func(i int) []*yc.Stmt {
			v := fmt.Sprintf("x%d", i)
			return []*yc.Stmt{yc.Set(v, "=", yc.ECallOf("dice", yc.ENumber(100))), yc.LineOf(&yc.LineSpec{Parts: []yc.Part{tx(v + "="), ex(yc.EVariable(v))}})}
		},
		func(i int) []*yc.Stmt {
			return []*yc.Stmt{yc.Options(
				&yc.Option{Line: &yc.LineSpec{Parts: []yc.Part{tx("a "), ex(yc.ECallOf("dice", yc.ENumber(4)))}, Cond: yc.EBinary("==", yc.ECallOf("dice", yc.ENumber(2)), yc.ENumber(1))},
					Body: []*yc.Stmt{yc.LineOf(&yc.LineSpec{Parts: []yc.Part{tx("in a "), ex(yc.ECallOf("random_range", yc.ENumber(-5), yc.ENumber(5)))}})}},
				&yc.Option{Line: &yc.LineSpec{Parts: []yc.Part{tx("b")}, Cond: yc.EBinary("<", yc.ECallOf("random"), yc.ENumber(0.5))}})}
		},
		func(i int) []*yc.Stmt {
			return []*yc.Stmt{yc.If(&yc.Clause{Cond: yc.EBinary(">", yc.ECallOf("dice", yc.ENumber(3)), yc.ENumber(1)), Body: []*yc.Stmt{yc.Line(fmt.Sprintf("then%d", i))}},
				&yc.Clause{Body: []*yc.Stmt{yc.LineOf(&yc.LineSpec{Parts: []yc.Part{tx("else "), ex(yc.ECallOf("random"))}})}})}
		},
		func(i int) []*yc.Stmt {
			return []*yc.Stmt{yc.JumpE(yc.EBinary("+", yc.EString("N"), yc.ECallOf("string", yc.ECallOf("dice", yc.ENumber(2)))))}
		},
		func(i int) []*yc.Stmt {
			return []*yc.Stmt{yc.Jump("Loop")}
		},
		func(i int) []*yc.Stmt {
			v := fmt.Sprintf("y%d", i)
			return []*yc.Stmt{yc.Set(v, "=", yc.EBinary("*", yc.ECallOf("random"), yc.ECallOf("random_range", yc.ENumber(2000000000), yc.ENumber(5000000000))))}
		},
		func(i int) []*yc.Stmt {
			// marked-up lines with a replacement marker in open form (another kind at odd positions), fed by a random draw
			if i%2 == 0 {
				return []*yc.Stmt{yc.LineOf(&yc.LineSpec{Parts: []yc.Part{tx("m [select value="), ex(yc.ECallOf("dice", yc.ENumber(2))), tx(` 1="low" 2="high"]x[/select] [plural value=`), ex(yc.ECallOf("dice", yc.ENumber(3))), tx(` one="% a" other="% b" /]`)}})}
			}
			return []*yc.Stmt{yc.LineOf(&yc.LineSpec{Parts: []yc.Part{tx("m [ordinal value="), ex(yc.ECallOf("dice", yc.ENumber(4))), tx(` one="%st" two="%nd" few="%rd" other="%th"][/ordinal]`)}})}
		},
	}
}

func c09Program(stmts [][]*yc.Stmt) *yc.Program {
	var body []*yc.Stmt
	for _, s := range stmts {
		body = append(body, s...)
	}
	body = append(body, yc.Line("tail"))
	dl := func(tag string) *yc.Stmt {
		return yc.LineOf(&yc.LineSpec{Parts: []yc.Part{{Src: tag + " ", Want: tag + " "}, {E: yc.ECallOf("random_range", yc.ENumber(10), yc.ENumber(99))}}})
	}
	return &yc.Program{Nodes: []*yc.Node{
		{Title: "A", Body: body},
		{Title: "N1", Body: []*yc.Stmt{dl("n1")}},
		{Title: "N2", Body: []*yc.Stmt{dl("n2"), yc.Jump("N1")}},
		{Title: "Loop", Body: []*yc.Stmt{
			yc.LineOf(&yc.LineSpec{Parts: []yc.Part{{Src: "loop ", Want: "loop "}, {E: yc.ECallOf("dice", yc.ENumber(6))}}}),
			yc.Set("i", "=", yc.EBinary("+", yc.ECallOf("number", yc.ECallOf("visited_count", yc.EString("Loop"))), yc.ENumber(1))),
			yc.If(&yc.Clause{Cond: yc.EBinary("<", yc.EVariable("i"), yc.ENumber(4)), Body: []*yc.Stmt{yc.Jump("Loop")}})}},
	}}
}

func c09Seeds(quick bool) []string {
	seeds := []string{"0", "00", "000000", "abc", "zz", "10", "z0", "0z", "a1b2c3d4", "zzzzzzzzzzzz", "zzzzzzzzzzzzzzzzzzzz", "100000000000000000000000000000000"}
	for _, ch := range "0123456789abcdefghijklmnopqrstuvwxyz" {
		seeds = append(seeds, string(ch))
	}
	if !quick {
		for _, a := range "0369cfilorux" {
			for _, b := range "0z5m" {
				seeds = append(seeds, string(a)+string(b))
			}
		}
	}
	return seeds
}

func storeSuffix(r *yc.Real, st variable.Storer) string {
	if st == nil {
		return ""
	}
	vals := st.GetValues()
	var ks []string
	for k, v := range vals {
		mv, _ := yc.FromVar(&v)
		ks = append(ks, k+"="+mv.String())
	}
	sort.Strings(ks)
	return "store{" + strings.Join(ks, ",") + "}"
}

func c09Exec(srcs []string, seed string) string {
	fr := yc.FreeWalk(srcs, yc.FreeOpts{MaxSteps: 14, Seed: seed, NewStorer: func() variable.Storer { return variable.NewInMemoryStorer() }, Suffix: storeSuffix})
	if fr.LoadErr != nil || fr.LoadPanic != "" || fr.Panic != "" {
		return fmt.Sprintf("FAILED load=%v %s panic=%s", fr.LoadErr, fr.LoadPanic, fr.Panic)
	}
	// the same run once more on a dialogue opened from a save file of the host: a snapshot it built itself, with several
	// variables, one entry of which holds no value (whether that is refused or not, the answer and what follows must
	// not vary from run to run)
	fr2 := yc.FreeWalk(srcs, yc.FreeOpts{MaxSteps: 8, Seed: seed, NewStorer: func() variable.Storer { return variable.NewInMemoryStorer() }, Suffix: storeSuffix,
		Setup: func(r *yc.Real, log *[]string) {
			r.Next(0)
			err := r.DR.RestoreAt(&ysgo.Snapshot{CurrentNode: "A", VisitedNodes: map[string]int{"Loop": 1},
				Variables: map[string]variable.Value{"a": *variable.NewNumber(1), "b": *variable.NewString("s"), "empty": {}, "c": *variable.NewBoolean(true), "i": *variable.NewNumber(0), "x0": *variable.NewNumber(5)}})
			*log = append(*log, fmt.Sprint("restore refused: ", err != nil))
		}})
	if fr2.LoadErr != nil || fr2.LoadPanic != "" || fr2.Panic != "" {
		return fmt.Sprintf("FAILED (restored run) load=%v %s panic=%s", fr2.LoadErr, fr2.LoadPanic, fr2.Panic)
	}
	// ... and once more from a save file of another version of the script: visit counts of nodes that exist next to counts
	// of nodes that do not (whether that is refused or not, the answer, the state it leaves and what follows do not vary)
	fr3 := yc.FreeWalk(srcs, yc.FreeOpts{MaxSteps: 5, Seed: seed, NewStorer: func() variable.Storer { return variable.NewInMemoryStorer() },
		Suffix: func(r *yc.Real, st variable.Storer) string { return storeSuffix(r, st) + " " + yc.SnapshotString(r) },
		Setup: func(r *yc.Real, log *[]string) {
			r.Next(0)
			err := r.DR.RestoreAt(&ysgo.Snapshot{CurrentNode: "A", VisitedNodes: map[string]int{"A": 2, "Loop": 3, "N1": 1, "N2": 4, "gone": 5, "older": 1, "oldest": 7, "B": 2},
				Variables: map[string]variable.Value{"a": *variable.NewNumber(1), "i": *variable.NewNumber(0)}})
			*log = append(*log, fmt.Sprint("restore refused: ", err != nil), "state after it: "+yc.SnapshotString(r))
		}})
	if fr3.LoadErr != nil || fr3.LoadPanic != "" || fr3.Panic != "" {
		return fmt.Sprintf("FAILED (run restored from a save of another version) load=%v %s panic=%s", fr3.LoadErr, fr3.LoadPanic, fr3.Panic)
	}
	return tracesString(fr) + "-- opened from a host-built snapshot --\n" + tracesString(fr2) + "-- opened from a save of another version --\n" + tracesString(fr3)
}

var c09OtherSrc = []string{"title: X\n---\n{dice(6)} {dice(6)}\n[nomarkup][b]raw[/b][/nomarkup] {random()}\n{random_range(1,100)} [b]x[/b]\n===\n"}

func c09Activity(k int, srcs []string, seed string) string {
	switch k {
	case 0: // another runner with the same seed drawing numbers
		c09Exec(c09OtherSrc, seed)
		return "other runner, same seed"
	case 1:
		c09Exec(c09OtherSrc, "q7")
		return "other runner, other seed"
	case 2:
		rand.Int63()
		rand.Float64()
		rand.Seed(12345)
		rand.Intn(6)
		return "global math/rand draws and re-seeding"
	case 3:
		yc.NewReal([]string{"title: broken\n---\n<<if>>\n"}, seed, nil)
		yc.NewReal([]string{""}, "BAD SEED", nil)
		return "failed loads"
	case 4:
		c09Exec(srcs, seed)
		return "the case itself"
	}
	return ""
}

func hashOf(s string) uint64 {
	h := fnv.New64a()
	h.Write([]byte(s))
	return h.Sum64()
}

func runC09(ctx *report.Ctx) {
	stmts := c09Statements()
	maxLen := report.Pick(ctx, 2, 3)
	seeds := c09Seeds(ctx.Quick())
	ctx.Bound("program_statements", maxLen)
	ctx.Bound("seeds", len(seeds))
	child := os.Getenv("VERIF_C09_CHILD") != ""
	digests := map[string]uint64{}
	var order []string

	gen := func(c *explore.Chooser) (*yc.Program, string) {
		n := 1 + c.Choose(maxLen, "len")
		var chosen [][]*yc.Stmt
		for i := 0; i < n; i++ {
			chosen = append(chosen, stmts[c.Choose(len(stmts), "stmt")](i))
		}
		seed := seeds[c.Choose(len(seeds), "seed")]
		return c09Program(chosen), seed
	}

	if child {
		// digest mode: every case, baseline only, printed for the parent to compare. "Whatever ran before": the second
		// and third child first run unrelated activity of their own (another runner showing other kinds of lines; failed loads)
		switch os.Getenv("VERIF_C09_CHILD") {
		case "2":
			c09Activity(0, nil, "abc")
		case "3":
			c09Activity(3, nil, "abc")
			c09Activity(1, nil, "abc")
		}
		w := bufio.NewWriter(os.Stdout)
		explore.Run(explore.Options{Budget: -1, ShardIndex: ctx.ShardIndex, ShardCount: ctx.ShardCount}, func(c *explore.Chooser) {
			p, seed := gen(c)
			if !c.Mine() {
				return
			}
			srcs := yc.Render(p, nil)
			fmt.Fprintf(w, "DIGEST %x %x\n", hashOf(srcs[0]+"|"+seed), hashOf(c09Exec(srcs, seed)))
		})
		w.Flush()
		return
	}

	nActs := 5
	part(ctx, "D", -1, func(c *explore.Chooser) {
		p, seed := gen(c)
		if !c.Mine() {
			return
		}
		srcs := yc.Render(p, nil)
		ctx.Current("D: seed " + seed + " " + srcs[0])
		base := c09Exec(srcs, seed)
		key := fmt.Sprintf("%x", hashOf(srcs[0]+"|"+seed))
		digests[key] = hashOf(base)
		order = append(order, key)
		ctx.Outcome(base)
		if strings.HasPrefix(base, "FAILED") {
			ctx.Violation(report.Violation{Clause: "run-failed", Witness: "seed=" + seed + " " + srcs[0], Detail: base, Choices: c.Choices(), Part: "D"})
			return
		}
		if ctx.WantSample() && len(srcs[0]) > 200 {
			ctx.Sample(map[string]any{"seed": seed, "script": srcs[0], "baseline_digest": key})
		}
		// histories of <=2 activities
		for h := 0; h < 1+nActs+nActs*nActs; h++ {
			var desc []string
			switch {
			case h == 0:
			case h <= nActs:
				desc = append(desc, c09Activity(h-1, srcs, seed))
			default:
				k := h - 1 - nActs
				desc = append(desc, c09Activity(k/nActs, srcs, seed), c09Activity(k%nActs, srcs, seed))
			}
			again := c09Exec(srcs, seed)
			ctx.AddEvals(1, 1)
			ctx.AddStates(1)
			ctx.AddTraces(1)
			ctx.AddTransitions(int64(strings.Count(again, "→") + 1))
			if again != base {
				ctx.Violation(report.Violation{Clause: "determinism", Witness: fmt.Sprintf("seed=%s after [%s] :: %s", seed, strings.Join(desc, "; "), srcs[0]),
					Detail:  "the same script, seed and choices gave another run: baseline\n" + base + "again\n" + again,
					Choices: c.Choices(), Part: "D", Extra: map[string]any{"scripts": srcs, "seed": seed, "history": desc}})
				return
			}
		}
	})

	// P: fresh processes (worker 0 compares the digests of all cases it owns with 3 children)
	if ctx.Replay == nil && !ctx.Expired() {
		self, _ := os.Executable()
		nChildren := 3
		for ch := 0; ch < nChildren; ch++ {
			// a fresh child process recomputes the baseline digest of every case of this shard
			cmd := exec.Command(self, "C09", ctx.EffectiveTier(), "--worker", fmt.Sprintf("%d/%d", ctx.ShardIndex, ctx.ShardCount))
			cmd.Env = append(os.Environ(), fmt.Sprintf("VERIF_C09_CHILD=%d", ch+1), "VERIF_NO_QUICK_PASS=1") // a child recomputes exactly the pass of its parent
			var out bytes.Buffer
			cmd.Stdout = &out
			stop := make(chan struct{})
			go func() { // waiting for a child is not a hang of the code under test
				for {
					select {
					case <-stop:
						return
					case <-time.After(5 * time.Second):
						ctx.Progress.Add(1)
					}
				}
			}()
			err := cmd.Run()
			close(stop)
			if err != nil {
				ctx.HarnessError("C09 child process failed: %v", err)
				continue
			}
			compared, all := 0, 0
			for _, line := range strings.Split(out.String(), "\n") {
				var k string
				var d uint64
				if n, _ := fmt.Sscanf(line, "DIGEST %s %x", &k, &d); n == 2 {
					all++
					if mine, ok := digests[k]; ok {
						compared++
						ctx.AddEvals(1, 1)
						ctx.AddStates(1)
						if mine != d {
							ctx.Violation(report.Violation{Clause: "determinism-across-processes", Witness: "case " + k,
								Detail: fmt.Sprintf("a fresh child process computed digest %x for case %s, this process %x", d, k, mine), Part: "P"})
						}
					}
				}
			}
			ctx.Count("cases_recomputed_in_child_processes", int64(compared))
			ctx.Count("child_processes", 1)
			if compared != len(digests) {
				ctx.HarnessError("C09: child produced %d digests, %d matched the %d cases of this worker", all, compared, len(digests))
			}
		}
	}

	// R: ranges
	draws := 50
	rangeSeeds := append([]string{"", "", ""}, seeds...)
	type rcase struct {
		expr  string
		check func(v float64) string
	}
	intIn := func(lo, hi float64) func(float64) string {
		return func(v float64) string {
			if v != math.Trunc(v) {
				return fmt.Sprintf("%v is not an integer", v)
			}
			if v < lo || v > hi {
				return fmt.Sprintf("%v is outside [%v,%v]", v, lo, hi)
			}
			return ""
		}
	}
	var rcases []rcase
	for _, n := range []float64{1, 2, 3, 6, 100, 1 << 31, 3000000000, 1 << 40} {
		rcases = append(rcases, rcase{"dice(" + numText(n) + ")", intIn(1, n)})
	}
	for _, ab := range [][2]float64{{-2, -2}, {-2, 0}, {-2, 1}, {-2, 5}, {0, 0}, {0, 1}, {0, 5}, {1, 1}, {1, 5}, {5, 5}, {2000000000, 5000000000}, {-3000000000, 3000000000}, {1, 1 << 33}, {-5, 1 << 32}, {1000000000000, 1000000000007}} {
		rcases = append(rcases, rcase{"random_range(" + numText(ab[0]) + ", " + numText(ab[1]) + ")", intIn(ab[0], ab[1])})
	}
	rcases = append(rcases, rcase{"random()", func(v float64) string {
		if !(v >= 0 && v < 1) {
			return fmt.Sprintf("%v is outside [0,1)", v)
		}
		return ""
	}})
	// R2: the range of a draw does not depend on what was drawn, or refused, before: E1, a refused call, E1 again, E2, E1 again
	// in one dialogue, 8 rounds (the node is entered again through a jump)
	refusedDraws := []string{"random_range(-3, 1 / 0)", "random_range(5, 1)", "dice(0)", "random_range(0 / 0, 2)", "dice(1 / 0)", "random_range(-7, 9000000000000000000000)"}
	part(ctx, "R2", -1, func(c *explore.Chooser) {
		e1 := rcases[c.Choose(len(rcases), "first")]
		if !c.Mine() {
			return
		}
		bad := refusedDraws[c.Choose(len(refusedDraws), "refused")]
		// the other draw in between: every third case in the quick tier (all of them in the thorough one)
		stride := report.Pick(ctx, 3, 1)
		e2 := rcases[(stride*c.Choose((len(rcases)+stride-1)/stride, "second"))%len(rcases)]
		seed := []string{"abc", "7"}[c.Choose(2, "seed")]
		src := "title: A\n---\n<<call cap(1, " + e1.expr + ")>>\n<<call cap(0, " + bad + ")>>\n<<call cap(1, " + e1.expr + ")>>\n<<call cap(2, " + e2.expr + ")>>\n<<call cap(1, " + e1.expr + ")>>\nround\n<<jump A>>\n===\n"
		w := fmt.Sprintf("seed=%q %s, then %s (refused), then %s, %s, %s, 8 rounds", seed, e1.expr, bad, e1.expr, e2.expr, e1.expr)
		ctx.Current("R2: " + w)
		r, err, pan := yc.NewReal([]string{src}, seed, nil)
		if err != nil || pan != "" {
			ctx.HarnessError("C09: harness script does not load: %v %s\n%s", err, pan, src)
			return
		}
		problem := ""
		n := 0
		r.DR.AddFunction("cap", func(args []*variable.Value) (*variable.Value, error) {
			n++
			if len(args) != 2 || args[0] == nil || args[0].Number == nil || args[1] == nil || args[1].Number == nil {
				problem = "cap received something that is not a number"
				return nil, nil
			}
			var m string
			switch *args[0].Number {
			case 0:
				m = "the out-of-domain call returned a value instead of an error"
			case 1:
				m = e1.check(*args[1].Number)
			case 2:
				m = e2.check(*args[1].Number)
			}
			if m != "" && problem == "" {
				problem = fmt.Sprintf("draw %d: %s", n, m)
			}
			return nil, nil
		})
		ctx.AddEvals(1, 1)
		ctx.AddStates(1)
		for round := 0; round < 8 && problem == ""; round++ {
			ro := r.Next(0) // stops at the refused call
			ctx.AddTransitions(1)
			if ro.Panic != "" || ro.K != yc.OError {
				problem = fmt.Sprintf("round %d: the out-of-domain call %s must be an error; got %s", round+1, bad, ro.String())
				break
			}
			ro = r.Next(0)
			ctx.AddTransitions(1)
			if ro.Panic != "" || ro.K != yc.OLine || ro.Text != "round" {
				problem = fmt.Sprintf("round %d: after the refused call the draws that follow did not complete: %s", round+1, ro.String())
			}
		}
		if problem == "" && n != 8*4 {
			problem = fmt.Sprintf("%d draws captured, %d expected", n, 8*4)
		}
		ctx.Outcome(fmt.Sprintf("%s|%s|%v", e1.expr, bad, problem == ""))
		if problem != "" {
			ctx.Violation(report.Violation{Clause: "range", Witness: w, Detail: problem, Choices: c.Choices(), Part: "R2", Extra: map[string]any{"scripts": []string{src}, "seed": seed}})
		}
	})
	part(ctx, "R", -1, func(c *explore.Chooser) {
		rc := rcases[c.Choose(len(rcases), "expr")]
		si := c.Choose(len(rangeSeeds), "seed")
		if !c.Mine() {
			return
		}
		seed := rangeSeeds[si]
		src := "title: A\n---\n<<call cap(" + rc.expr + ")>>\n<<set $i = number(visited_count(\"A\")) + 1>>\n<<if $i < " + fmt.Sprint(draws) + ">>\n<<jump A>>\n<<endif>>\ndone\n===\n"
		ctx.Current("R: seed " + seed + " " + rc.expr)
		r, err, pan := yc.NewReal([]string{src}, seed, nil)
		if err != nil || pan != "" {
			ctx.Violation(report.Violation{Clause: "range-load", Witness: fmt.Sprintf("seed=%q %s", seed, rc.expr), Detail: fmt.Sprintf("cannot load: %v %s", err, pan), Choices: c.Choices(), Part: "R"})
			return
		}
		var got []float64
		bad := ""
		r.DR.AddFunction("cap", func(args []*variable.Value) (*variable.Value, error) {
			if len(args) == 1 && args[0] != nil && args[0].Number != nil {
				got = append(got, *args[0].Number)
			} else {
				bad = "cap received a non-number"
			}
			return nil, nil
		})
		ro := r.Next(0)
		ctx.AddEvals(1, 1)
		ctx.AddStates(1)
		ctx.AddTransitions(1)
		if ro.Panic != "" || ro.K != yc.OLine {
			bad = "the drawing loop did not complete: " + ro.String()
			if ro.Err != nil {
				bad += " " + ro.Err.Error()
			}
		} else if len(got) != draws {
			bad = fmt.Sprintf("%d values captured, %d expected", len(got), draws)
		}
		distinct := map[float64]bool{}
		for _, v := range got {
			distinct[v] = true
			if m := rc.check(v); m != "" && bad == "" {
				bad = m
			}
		}
		ctx.Outcome(fmt.Sprintf("%s:%d", rc.expr, len(distinct)))
		if bad != "" {
			ctx.Violation(report.Violation{Clause: "range", Witness: fmt.Sprintf("seed=%q %s", seed, rc.expr), Detail: bad + fmt.Sprintf("; draws %v", got), Choices: c.Choices(), Part: "R",
				Extra: map[string]any{"scripts": []string{src}, "seed": seed}})
		}
	})
}
