package checks

import (
	"fmt"
	"sort"
	"strconv"
	"strings"
	"time"

	"github.com/remieven/ysgo"
	"github.com/remieven/ysgo/variable"
	"github.com/remieven/ysgo/verifx/internal/dump"
	"github.com/remieven/ysgo/verifx/internal/explore"
	"github.com/remieven/ysgo/verifx/internal/report"
	yc "github.com/remieven/ysgo/verifx/internal/yarncore"
)

func init() {
	register(&Check{
		Meta: report.Meta{
			Property: "C07",
			Rule: "for every script of a family (variables set before and after jumps, visited_count of every node shown in lines, option groups, a command that never completes, tracking: never nodes, a host-populated storer and a storer empty at creation, ends), every path of an original runner up to the save bound, every step of it as save point (Snapshot), optional host write, every continuation of the original up to a bound; " +
				"every receiving runner (the original itself, or a fresh runner of the same script driven along every path up to a bound: fresh, mid-node, waiting for a choice, waiting for a command, ended; with optional host write), optional RestoreAt of a snapshot naming an unknown node first, then RestoreAt(snapshot), optional second runner restored from the same snapshot and stepped alternately, every continuation path up to a bound, optional second restore of the same snapshot; " +
				"at most one host write between two steps before the save point; receivers that hold the snapshot's variables under another type with the same display form; HS: snapshots built by the host (every node x variables nil / empty / {x} / five entries one of which holds no value - if that one is refused, nothing may have changed - x visit counts nil / empty / {A:2}) restored into a runner in every state and continued along every path; " +
				"every snapshot is taken twice and the second value overwritten by the host at once; every restore is given a copy of the snapshot which the host overwrites as soon as RestoreAt has returned (a snapshot is a self-contained value in both directions); " +
				"oracle on every transition: elements and storer contents equal those of the reference interpreter restarted from its node-entry checkpoint; every snapshot value held is deep-equal to the frozen copy taken when it was made and to the model checkpoint (nil = empty map); a snapshot taken right after the restore equals the restored one; the unknown-node restore fails and leaves the reflective dump of runner and storer unchanged; " +
				"SRK: the same on scripts with loops where the host keeps its save value and passes that very value to every RestoreAt, a second time after the dialogue has left the node and come back to it; the save value is what it was; " +
				"a case is one (script, original path, save point, receiver state, continuation); non-trivial = the save point is after at least one jump or the receiver is not fresh",
			StatesMean:  "(script, history of operations) prefixes visited on the real runners; transitions = real Next / Snapshot / RestoreAt calls compared with the model",
			Assumptions: []string{"small-scope hypothesis on scripts and path lengths", "scripts of this family contain no random function; one of them (P7) contains failing statements (unknown jump targets, a type-changing assignment, an unknown function): the dialogue is taken to go on with the statement after the one that failed, as the pinned tree does"},
		},
		QuickBudget: 240 * time.Second, ThoroughBudget: 14 * time.Minute, CrashIsViolation: true,
		Run: runC07,
	})
}

var c07Host = &yc.HostSpec{
	Cmds: []yc.CmdSpec{{Name: "hang", Pending: true}, {Name: "act"}},
	Vars: map[string]yc.Value{"gold": yc.Num(5)},
}

func c07Scripts(withGold bool) []*yc.Program {
	st := func(tag string, names ...string) *yc.Stmt {
		ls := &yc.LineSpec{Parts: []yc.Part{{Src: tag + " x=", Want: tag + " x="}, {E: yc.EVariable("x")}, {Src: " ", Want: " "}}}
		if withGold {
			ls.Parts = append(ls.Parts, yc.Part{Src: "g=", Want: "g="}, yc.Part{E: yc.EVariable("gold")}, yc.Part{Src: " ", Want: " "})
		}
		for _, n := range names {
			ls.Parts = append(ls.Parts, yc.Part{Src: n + "=", Want: n + "="}, yc.Part{E: yc.ECallOf("visited_count", yc.EString(n))}, yc.Part{Src: " ", Want: " "})
		}
		return yc.LineOf(ls)
	}
	setx := func(op string, v float64) *yc.Stmt { return yc.Set("x", op, yc.ENumber(v)) }
	gold := func(op string, v float64) *yc.Stmt {
		if withGold {
			return yc.Set("gold", op, yc.ENumber(v))
		}
		return yc.Set("silver", "=", yc.ENumber(v))
	}
	return []*yc.Program{
		// P1: options, variables before/after jumps, a never tracked node with a pending command
		{Nodes: []*yc.Node{
			{Title: "A", Body: []*yc.Stmt{setx("=", 1), st("a1", "A", "B"),
				yc.Options(&yc.Option{Line: yc.TextLine("go"), Body: []*yc.Stmt{setx("+=", 10), yc.Jump("B")}}, &yc.Option{Line: yc.TextLine("stay"), Body: []*yc.Stmt{yc.Line("stayed")}}),
				yc.Set("y", "=", yc.EString("s")), yc.Line("a2"), yc.Jump("B")}},
			{Title: "B", Tracking: "never", Body: []*yc.Stmt{st("b1", "A", "B"), setx("*=", 2), yc.Command("hang"), yc.Line("b2"), yc.Jump("A")}},
		}},
		// P2: pending command in the start node, stop in an option
		{Nodes: []*yc.Node{
			{Title: "A", Body: []*yc.Stmt{setx("=", 3), yc.Line("a1"), yc.Command("hang"), yc.Line("a2"), yc.Jump("B")}},
			{Title: "B", Body: []*yc.Stmt{st("b1", "A", "B"), yc.Options(&yc.Option{Line: yc.TextLine("again"), Body: []*yc.Stmt{yc.Jump("A")}}, &yc.Option{Line: yc.TextLine("halt"), Body: []*yc.Stmt{yc.Stop()}}), yc.Line("unreachable")}},
		}},
		// P3: immediate jump, self loop, three nodes, one never tracked
		{Nodes: []*yc.Node{
			{Title: "A", Body: []*yc.Stmt{setx("=", 1), yc.Jump("B")}},
			{Title: "B", Body: []*yc.Stmt{st("b", "A", "B", "C"), setx("+=", 1),
				yc.Options(&yc.Option{Line: yc.TextLine("loop"), Body: []*yc.Stmt{yc.Jump("B")}}, &yc.Option{Line: yc.TextLine("on"), Body: []*yc.Stmt{yc.Set("z", "=", yc.EBoolean(true)), yc.Jump("C")}})}},
			{Title: "C", Tracking: "never", Body: []*yc.Stmt{st("c", "A", "B", "C"), yc.Jump("B")}},
		}},
		// P4: the host-populated variable, an end without jump
		{Nodes: []*yc.Node{
			{Title: "A", Body: []*yc.Stmt{setx("=", 0), st("a"), gold("-=", 1), st("a'"), yc.Options(&yc.Option{Line: yc.TextLine("leave"), Body: []*yc.Stmt{yc.Jump("B")}}, &yc.Option{Line: yc.TextLine("end")})}},
			{Title: "B", Tracking: "always", Body: []*yc.Stmt{st("b", "A", "B"), gold("+=", 10), yc.Command("act"), st("b'", "A", "B"), yc.Jump("A")}},
		}},
		// P6: nodes that assign nothing themselves (what the host writes into its storer is all that changes)
		{Nodes: []*yc.Node{
			{Title: "A", Body: []*yc.Stmt{yc.Line("a1"), yc.Jump("B")}},
			{Title: "B", Body: []*yc.Stmt{yc.Line("b1"), yc.Options(&yc.Option{Line: yc.TextLine("back"), Body: []*yc.Stmt{yc.Jump("A")}}, &yc.Option{Line: yc.TextLine("end")})}},
		}},
		// P7: failing statements (a jump to a node that does not exist, an assignment that would change a type, a call of an
		// unknown function) between the node entry and the save point: a failed jump enters no node, so the checkpoint
		// stays that of the last node actually entered, and the statements that failed changed nothing
		{Nodes: []*yc.Node{
			{Title: "A", Body: []*yc.Stmt{setx("=", 1), yc.Jump("B")}},
			{Title: "B", Body: []*yc.Stmt{st("b1", "A", "B"), setx("+=", 1), yc.Jump("nowhere"), st("b2", "A", "B"), yc.Set("x", "=", yc.EString("s")), yc.Set("y", "=", yc.EBoolean(true)),
				yc.Options(&yc.Option{Line: yc.TextLine("lost"), Body: []*yc.Stmt{setx("*=", 3), yc.JumpE(yc.EString("void")), yc.Line("still in B"), yc.Jump("A")}}, &yc.Option{Line: yc.TextLine("back"), Body: []*yc.Stmt{yc.Call("nosuchfn"), yc.Jump("A")}})}},
		}},
		// P8: the title header of the start node ends in blanks (nothing jumps to it): a snapshot taken in it can be restored
		{Nodes: []*yc.Node{
			{Title: "Lobby  ", Body: []*yc.Stmt{setx("=", 2), st("l1", "B"), yc.Options(&yc.Option{Line: yc.TextLine("go"), Body: []*yc.Stmt{setx("+=", 1), yc.Jump("B")}}, &yc.Option{Line: yc.TextLine("stay"), Body: []*yc.Stmt{yc.Line("stayed")}}), yc.Line("l2"), yc.Jump("B")}},
			{Title: "B", Body: []*yc.Stmt{st("b", "B"), yc.Options(&yc.Option{Line: yc.TextLine("again"), Body: []*yc.Stmt{yc.Jump("B")}}, &yc.Option{Line: yc.TextLine("end")})}},
		}},
		// P5: a dialogue that ends soon (ended receivers)
		{Nodes: []*yc.Node{
			{Title: "A", Body: []*yc.Stmt{setx("=", 4), yc.Options(&yc.Option{Line: yc.TextLine("go"), Body: []*yc.Stmt{yc.Jump("B")}}, &yc.Option{Line: yc.TextLine("quit")})}},
			{Title: "B", Body: []*yc.Stmt{st("b", "A", "B")}},
		}},
	}
}

// c07Runner is one real runner stepped in lock-step with its own model machine.
type c07Runner struct {
	name   string
	r      *yc.Real
	st     *variable.InMemoryStorer
	log    []string
	m      *yc.Machine
	prev   *yc.Obs        // last model observation
	rest   *yc.Checkpoint // pending restore in the model: the next step starts from this checkpoint
	trace  []string
	nSteps int
}

func newC07Runner(name string, p *yc.Program, srcs []string, hs *yc.HostSpec) (*c07Runner, string) {
	x := &c07Runner{name: name, st: variable.NewInMemoryStorer(), m: yc.NewMachine(p, hs.Model())}
	for k, v := range hs.Vars {
		if v.K == yc.VNum {
			x.st.SetNumberValue(k, v.N)
		}
	}
	r, err, pan := yc.NewReal(srcs, "abc", x.st)
	if err != nil || pan != "" {
		return nil, fmt.Sprintf("script does not load: %v %s", err, pan)
	}
	x.r = r
	hs.Install(r.DR, &x.log)
	return x, ""
}

func (x *c07Runner) choices() int {
	if x.rest == nil && x.prev != nil && x.prev.K == yc.OOptions {
		return len(x.prev.Opts)
	}
	return 1
}

func (x *c07Runner) step(choice int) string {
	var mo *yc.Obs
	switch {
	case x.rest != nil:
		mo = x.m.Restore(*x.rest)
		x.rest = nil
	case x.prev == nil:
		mo = x.m.Start()
	default:
		mo = x.prev.Next(choice)
	}
	if mo.K == yc.ODiverge {
		return "HORIZON"
	}
	ro := x.r.Next(choice)
	x.nSteps++
	x.trace = append(x.trace, fmt.Sprintf("%s.Next(%d)=%s", x.name, choice, ro.String()))
	x.prev = mo
	if d := yc.Diff(mo, ro, yc.Flags{}); d != "" {
		return fmt.Sprintf("%s: %s", x.name, d)
	}
	if a, b := strings.Join(x.m.Log, ";"), strings.Join(x.log, ";"); a != b {
		return fmt.Sprintf("%s: handler invocations expected [%s], got [%s]", x.name, a, b)
	}
	if d := x.storeDiff(x.m.Store); d != "" {
		return fmt.Sprintf("%s: after Next(%d): %s", x.name, choice, d)
	}
	return ""
}

// storeDiff compares the contents of the runner's storer with the expected variables.
func (x *c07Runner) storeDiff(want map[string]yc.Value) string {
	got := x.st.GetValues()
	for k, w := range want {
		gv, ok := got[k]
		if !ok {
			return fmt.Sprintf("variable %s: expected %s, the storer has none", k, w)
		}
		if g, _ := yc.FromVar(&gv); !g.Equal(w) {
			return fmt.Sprintf("variable %s: expected %s, the storer has %s", k, w, g)
		}
	}
	for k, gv := range got {
		if _, ok := want[k]; !ok {
			g, _ := yc.FromVar(&gv)
			return fmt.Sprintf("variable %s: the storer has %s, expected none", k, g)
		}
	}
	return ""
}

type c07Snap struct {
	kept   *ysgo.Snapshot // keep mode: the host's own copy of the save, handed to every RestoreAt
	real   *ysgo.Snapshot
	cp     yc.Checkpoint
	frozen string
	from   string
}

func snapDiff(s *ysgo.Snapshot, cp yc.Checkpoint) string {
	if s == nil {
		return "Snapshot returned nil"
	}
	if strings.TrimSpace(s.CurrentNode) != strings.TrimSpace(cp.Node) { // whether blanks around a title belong to it is not settled
		return fmt.Sprintf("CurrentNode %q, node entered last is %q", s.CurrentNode, cp.Node)
	}
	var keys []string
	for k := range cp.Vars {
		keys = append(keys, k)
	}
	for k := range s.Variables {
		if _, ok := cp.Vars[k]; !ok {
			keys = append(keys, k)
		}
	}
	sort.Strings(keys)
	for _, k := range keys {
		want, okw := cp.Vars[k]
		gv, okg := s.Variables[k]
		g, _ := yc.FromVar(&gv)
		if okw != okg || (okw && !g.Equal(want)) {
			return fmt.Sprintf("variable %s: snapshot has %v (present %v), at the last node entry it was %v (present %v)", k, g, okg, want, okw)
		}
	}
	// visit counts by title, blanks around a title disregarded (see above)
	wantV, gotV := map[string]int{}, map[string]int{}
	for k, v := range cp.Visits {
		wantV[strings.TrimSpace(k)] += v
	}
	for k, v := range s.VisitedNodes {
		gotV[strings.TrimSpace(k)] += v
	}
	var nodes []string
	for k := range wantV {
		nodes = append(nodes, k)
	}
	for k := range gotV {
		if _, ok := wantV[k]; !ok {
			nodes = append(nodes, k)
		}
	}
	sort.Strings(nodes)
	for _, k := range nodes {
		if wantV[k] != gotV[k] {
			return fmt.Sprintf("visit count of %s: snapshot has %d, at the last node entry it was %d", k, gotV[k], wantV[k])
		}
	}
	return ""
}

func (x *c07Runner) snapshot() (*c07Snap, string) {
	var s *ysgo.Snapshot
	if p := guard(func() { s = x.r.DR.Snapshot() }); p != nil {
		return nil, fmt.Sprintf("%s.Snapshot panicked: %v", x.name, p)
	}
	x.trace = append(x.trace, x.name+".Snapshot()")
	cp := x.m.CP
	if x.rest != nil {
		cp = *x.rest
	}
	// deep copy of the model checkpoint
	c2 := yc.Checkpoint{Node: cp.Node, Vars: map[string]yc.Value{}, Visits: map[string]int{}}
	for k, v := range cp.Vars {
		c2.Vars[k] = v
	}
	for k, v := range cp.Visits {
		c2.Visits[k] = v
	}
	if d := snapDiff(s, c2); d != "" {
		return nil, fmt.Sprintf("%s.Snapshot(): %s", x.name, d)
	}
	// a second snapshot value of the same moment, overwritten by the host at once: neither the runner nor the first
	// value may notice (every later comparison would)
	var s2 *ysgo.Snapshot
	if p := guard(func() { s2 = x.r.DR.Snapshot() }); p != nil {
		return nil, fmt.Sprintf("%s.Snapshot (second call) panicked: %v", x.name, p)
	}
	out := &c07Snap{real: s, cp: c2, frozen: dump.String(s), from: x.name}
	scribble(s2)
	if fd := out.checkFrozen("when the host overwrote another snapshot value taken at the same moment"); fd != "" {
		return nil, fd
	}
	return out, ""
}

// scribble overwrites a snapshot value the host owns: every entry replaced, removed or added. A snapshot is a
// self-contained value in both directions: what the host does to one it holds changes no runner.
func scribble(s *ysgo.Snapshot) {
	if s == nil {
		return
	}
	for k := range s.Variables {
		delete(s.Variables, k)
	}
	if s.Variables != nil {
		s.Variables["scribbled"] = *variable.NewNumber(424242)
		s.Variables["x"] = *variable.NewString("scribbled")
	}
	for k := range s.VisitedNodes {
		s.VisitedNodes[k] = 99
	}
	if s.VisitedNodes != nil {
		s.VisitedNodes["A"], s.VisitedNodes["B"], s.VisitedNodes["N1"] = 77, 78, 79
	}
	s.CurrentNode = "Scribbled"
}

// cloneSnapshot copies a snapshot value (maps and values).
func cloneSnapshot(s *ysgo.Snapshot) *ysgo.Snapshot {
	c := &ysgo.Snapshot{CurrentNode: s.CurrentNode}
	if s.Variables != nil {
		c.Variables = map[string]variable.Value{}
		for k, v := range s.Variables {
			var nv variable.Value
			switch {
			case v.Number != nil:
				nv = *variable.NewNumber(*v.Number)
			case v.Boolean != nil:
				nv = *variable.NewBoolean(*v.Boolean)
			case v.String != nil:
				nv = *variable.NewString(*v.String)
			}
			c.Variables[k] = nv
		}
	}
	if s.VisitedNodes != nil {
		c.VisitedNodes = map[string]int{}
		for k, v := range s.VisitedNodes {
			c.VisitedNodes[k] = v
		}
	}
	return c
}

func (s *c07Snap) checkFrozen(when string) string {
	if now := dump.String(s.real); now != s.frozen {
		return fmt.Sprintf("the snapshot taken from %s changed %s: it was %s, it is now %s", s.from, when, s.frozen, now)
	}
	return ""
}

func (x *c07Runner) restore(s *c07Snap) string {
	var err error
	// the runner is given a copy of the snapshot value, which the host overwrites as soon as RestoreAt has returned:
	// the restored runner must not notice (it would in every later comparison)
	given := cloneSnapshot(s.real)
	if c07Keep {
		if s.kept == nil {
			s.kept = given
		}
		given = s.kept
	}
	if p := guard(func() { err = x.r.DR.RestoreAt(given) }); p != nil {
		return fmt.Sprintf("%s.RestoreAt panicked: %v", x.name, p)
	}
	if c07Keep {
		x.trace = append(x.trace, x.name+".RestoreAt(the host's save of the snapshot of "+s.from+", the same value every time)")
		if now := dump.String(given); now != s.frozen {
			return fmt.Sprintf("the save value the host keeps and restores from was changed (by RestoreAt or by the runners restored from it): it was %s, it is now %s", s.frozen, now)
		}
	} else {
		scribble(given)
		x.trace = append(x.trace, x.name+".RestoreAt(copy of the snapshot of "+s.from+"), then the host overwrites that copy")
	}
	if err != nil {
		return fmt.Sprintf("%s.RestoreAt of a snapshot of the same script failed: %v", x.name, err)
	}
	cp := s.cp
	x.rest = &cp
	x.prev = nil
	// the variables are part of the restored state: the storer holds exactly those of the checkpoint
	if d := x.storeDiff(cp.Vars); d != "" {
		return fmt.Sprintf("%s: right after RestoreAt: %s", x.name, d)
	}
	return ""
}

func (x *c07Runner) hostWrite(v float64) {
	x.st.SetNumberValue("x", v)
	x.st.SetStringValue("hosted", "h")
	if x.rest == nil {
		x.m.Store["x"] = yc.Num(v)
		x.m.Store["hosted"] = yc.Str("h")
	}
	x.trace = append(x.trace, fmt.Sprintf("%s: host writes x=%v hosted=\"h\"", x.name, v))
}

// confuseTypes writes every variable of vars into the storer under another type with the same display form.
func (x *c07Runner) confuseTypes(vars map[string]yc.Value) {
	var names []string
	for k := range vars {
		names = append(names, k)
	}
	sort.Strings(names)
	for _, k := range names {
		v := vars[k]
		var nv yc.Value
		switch v.K {
		case yc.VNum, yc.VBool:
			nv = yc.Str(v.Display())
		default:
			if f, err := strconv.ParseFloat(v.S, 64); err == nil {
				nv = yc.Num(f)
			} else {
				nv = yc.Num(0)
			}
		}
		switch nv.K {
		case yc.VStr:
			x.st.SetStringValue(k, nv.S)
		case yc.VNum:
			x.st.SetNumberValue(k, nv.N)
		}
		if x.rest == nil {
			x.m.Store[k] = nv
		}
		x.trace = append(x.trace, fmt.Sprintf("%s: host writes %s=%s (another type, same display)", x.name, k, nv))
	}
}

func (x *c07Runner) bogusRestore() string {
	before := dump.Values(x.r.DR, x.st)
	var err error
	bogus := &ysgo.Snapshot{CurrentNode: "NoSuchNode", Variables: map[string]variable.Value{"x": *variable.NewNumber(99)}, VisitedNodes: map[string]int{"A": 7}}
	if p := guard(func() { err = x.r.DR.RestoreAt(bogus) }); p != nil {
		return fmt.Sprintf("%s.RestoreAt(unknown node) panicked: %v", x.name, p)
	}
	x.trace = append(x.trace, x.name+".RestoreAt(snapshot naming an unknown node)")
	if err == nil {
		return x.name + ".RestoreAt of a snapshot naming an unknown node succeeded"
	}
	if after := dump.Values(x.r.DR, x.st); after != before {
		return x.name + ".RestoreAt of a snapshot naming an unknown node failed but changed the runner or its storer"
	}
	return ""
}

type c07Bounds struct {
	pre, mid, recv, cont int
	// keep: the host keeps the snapshot value it was given and passes that very value to every RestoreAt, never touching it
	// (instead of a copy that it overwrites right after the call)
	keep bool
}

// c07Keep is the keep mode of the restoreExplore part that is running (parts run one after the other).
var c07Keep bool

// restoreExplore is the exploration shared by C07 and the restore family of C11.
func restoreExplore(ctx *report.Ctx, partName string, scripts []*yc.Program, hs *yc.HostSpec, b c07Bounds) {
	c07Keep = b.keep
	defer func() { c07Keep = false }()
	part(ctx, partName, 1, func(c *explore.Chooser) {
		si := c.Choose(len(scripts), "script")
		p := scripts[si]
		srcs := yc.Render(p, nil)
		var all []*c07Runner
		fail := func(clause, detail string) {
			var tr []string
			for _, x := range all {
				tr = append(tr, x.trace...)
			}
			ctx.Violation(report.Violation{Clause: clause, Witness: fmt.Sprintf("script %d ops %v", si, c.Choices()), Detail: detail + " -- operations per runner: " + strings.Join(tr, " | ") + " -- script: " + srcs[0],
				Choices: c.Choices(), Part: partName, Extra: map[string]any{"scripts": srcs, "operations": tr}})
		}
		newRunner := func(name string) *c07Runner {
			x, e := newC07Runner(name, p, srcs, hs)
			if x == nil {
				ctx.HarnessError("%s: %s", partName, e)
				return nil
			}
			all = append(all, x)
			return x
		}
		// drives x for up to n steps along chosen choices; returns false on mismatch / stop
		drive := func(x *c07Runner, n int, label string, snaps []*c07Snap) bool {
			k := c.Choose(n+1, label+"-steps")
			for i := 0; i < k; i++ {
				if label == "pre" && c.ChooseDev(2, "host-write-between-steps") == 1 {
					// a value written by the host (or by a handler) between two steps, with no set statement after
					// it, is part of the state the next node entry checkpoints (at most one such write per case)
					x.hostWrite(33)
				}
				ch := c.Choose(x.choices(), label+"-choice")
				d := x.step(ch)
				if d == "HORIZON" {
					return true
				}
				ctx.AddTransitions(1)
				if d != "" {
					fail("restore-trace", d)
					return false
				}
				for _, s := range snaps {
					if fd := s.checkFrozen(fmt.Sprintf("after %s.Next", x.name)); fd != "" {
						fail("snapshot-not-self-contained", fd)
						return false
					}
				}
			}
			return true
		}
		r0 := newRunner("R0")
		if r0 == nil {
			return
		}
		if !drive(r0, b.pre, "pre", nil) {
			return
		}
		snap, d := r0.snapshot()
		if d != "" {
			fail("snapshot-content", d)
			return
		}
		snaps := []*c07Snap{snap}
		// a case that spent its host write before the save point explores the plain continuation only (restore into
		// the original, no twin, no second restore): the write matters for what the snapshot holds and restores
		plain := c.Spent() > 0
		pick := func(n int, label string) int {
			if plain {
				return 0
			}
			return c.Choose(n, label)
		}
		if pick(2, "host-write-original") == 1 {
			r0.hostWrite(77)
			if fd := snap.checkFrozen("after a host write to the storer"); fd != "" {
				fail("snapshot-not-self-contained", fd)
				return
			}
		}
		if !drive(r0, b.mid, "mid", snaps) {
			return
		}
		// the receiver
		recv := r0
		recvKind := pick(2, "receiver")
		if !c.Mine() { // shard on everything up to here: many small prefixes balance the workers
			return
		}
		ctx.Current(fmt.Sprintf("%s: script %d choices %v", partName, si, c.Choices()))
		if recvKind == 1 {
			recv = newRunner("R1")
			if recv == nil {
				return
			}
			if !drive(recv, b.recv, "recv", snaps) {
				return
			}
			switch c.Choose(3, "host-write-receiver") {
			case 1:
				recv.hostWrite(55)
			case 2:
				// the receiver holds every variable of the snapshot under another type but with the same display
				// form (number 1 / string "1", true / "True"): the restore must still install the snapshot's values
				recv.confuseTypes(snap.cp.Vars)
			}
		}
		if pick(2, "unknown-node-restore-first") == 1 {
			if d := recv.bogusRestore(); d != "" {
				fail("unknown-node-restore", d)
				return
			}
		}
		nontrivial := snap.cp.Node != p.Nodes[0].Title || recv != r0 || r0.nSteps > 0
		if d := recv.restore(snap); d != "" {
			fail("restore-failed", d)
			return
		}
		ctx.AddTransitions(1)
		if fd := snap.checkFrozen("by RestoreAt"); fd != "" {
			fail("snapshot-not-self-contained", fd)
			return
		}
		// a snapshot taken right away equals the restored one
		again, d := recv.snapshot()
		if d != "" {
			fail("resnapshot", "a snapshot taken immediately after the restore does not equal the restored one: "+d)
			return
		}
		snaps = append(snaps, again)
		// optionally a second runner restored from the same snapshot, stepped alternately
		var twin *c07Runner
		if pick(2, "twin") == 1 {
			twin = newRunner("R2")
			if twin == nil {
				return
			}
			if !drive(twin, 1, "twin-pre", snaps) {
				return
			}
			if d := twin.restore(snap); d != "" {
				fail("restore-failed", d)
				return
			}
		}
		k := c.Choose(b.cont+1, "cont-steps")
		for i := 0; i < k; i++ {
			for _, x := range []*c07Runner{recv, twin} {
				if x == nil {
					continue
				}
				ch := c.Choose(x.choices(), "cont-choice")
				d := x.step(ch)
				if d == "HORIZON" {
					continue
				}
				ctx.AddTransitions(1)
				if d != "" {
					fail("restore-trace", d)
					return
				}
				for _, s := range snaps {
					if fd := s.checkFrozen(fmt.Sprintf("after %s.Next following the restore", x.name)); fd != "" {
						fail("snapshot-not-self-contained", fd)
						return
					}
				}
			}
		}
		// the snapshot is still good for a second restore
		if pick(2, "second-restore") == 1 {
			if d := recv.restore(snap); d != "" {
				fail("restore-failed", d)
				return
			}
			for i := 0; i < 2; i++ {
				ch := c.Choose(recv.choices(), "after-second-restore-choice")
				if d := recv.step(ch); d != "" && d != "HORIZON" {
					fail("restore-trace", "after a second restore of the same snapshot: "+d)
					return
				}
				ctx.AddTransitions(1)
			}
		}
		var steps int64
		for _, x := range all {
			steps += int64(x.nSteps)
		}
		ctx.AddEvals(1, b2i(nontrivial))
		ctx.AddStates(steps)
		ctx.AddTraces(1)
		if len(recv.trace) > 0 {
			ctx.Outcome(recv.trace[len(recv.trace)-1] + snap.cp.Node)
		}
		if ctx.WantSample() && twin != nil && k >= 2 && recv != r0 {
			var tr []string
			for _, x := range all {
				tr = append(tr, x.trace...)
			}
			ctx.Sample(map[string]any{"part": partName, "script": srcs[0], "operations": tr})
		}
	})
}

// hostSnapshots: snapshots the host builds itself (a save file holding only part of the fields): nil and empty maps
// mean the same (nothing recorded); restoring one and running every continuation never panics and goes on exactly
// as the reference interpreter restarted from that node with those variables and no visits.
func hostSnapshots(ctx *report.Ctx, scripts []*yc.Program, hs *yc.HostSpec, recvSteps, cont int) {
	part(ctx, "HS", -1, func(c *explore.Chooser) {
		si := c.Choose(len(scripts), "script")
		p := scripts[si]
		node := p.Nodes[c.Choose(len(p.Nodes), "node")]
		varsKind := c.Choose(4, "variables") // nil, empty, {x}, several entries one of which holds no value
		visitsKind := c.Choose(3, "visits")  // nil, empty, {A:2}
		if node != p.Nodes[0] && varsKind != 2 && varsKind != 3 {
			return // only the start nodes of the family set $x before reading it
		}
		srcs := yc.Render(p, nil)
		x, e := newC07Runner("R", p, srcs, hs)
		if x == nil {
			ctx.HarnessError("HS: %s", e)
			return
		}
		fail := func(clause, detail string) {
			ctx.Violation(report.Violation{Clause: clause, Witness: fmt.Sprintf("script %d node %s host-built snapshot variables-kind %d visits-kind %d ops %v", si, node.Title, varsKind, visitsKind, c.Choices()),
				Detail: detail + " -- operations: " + strings.Join(x.trace, " | ") + " -- script: " + srcs[0], Choices: c.Choices(), Part: "HS", Extra: map[string]any{"scripts": srcs, "operations": x.trace}})
		}
		k := c.Choose(recvSteps+1, "recv-steps")
		for i := 0; i < k; i++ {
			d := x.step(c.Choose(x.choices(), "recv-choice"))
			if d == "HORIZON" {
				break
			}
			if d != "" {
				fail("restore-trace", d)
				return
			}
		}
		if !c.Mine() {
			return
		}
		ctx.Current(fmt.Sprintf("HS: script %d choices %v", si, c.Choices()))
		snap := &ysgo.Snapshot{CurrentNode: node.Title}
		cp := yc.Checkpoint{Node: node.Title, Vars: map[string]yc.Value{}, Visits: map[string]int{}}
		switch varsKind {
		case 1:
			snap.Variables = map[string]variable.Value{}
		case 2:
			snap.Variables = map[string]variable.Value{"x": *variable.NewNumber(1)}
			cp.Vars["x"] = yc.Num(1)
		}
		switch visitsKind {
		case 1:
			snap.VisitedNodes = map[string]int{}
		case 2:
			snap.VisitedNodes = map[string]int{"A": 2}
			cp.Visits["A"] = 2
		}
		if varsKind == 3 {
			// a corrupt save file: one entry holds no value at all. Whether such a snapshot is refused is not constrained,
			// but a refused restore changes nothing (like the restore of a snapshot naming an unknown node)
			snap.Variables = map[string]variable.Value{"a": *variable.NewNumber(1), "b": *variable.NewString("s"), "empty": {}, "c": *variable.NewBoolean(true), "x": *variable.NewNumber(2)}
			before := dump.Values(x.r.DR, x.st)
			var rerr error
			if pv := guard(func() { rerr = x.r.DR.RestoreAt(snap) }); pv != nil {
				fail("restore-failed", fmt.Sprintf("RestoreAt(snapshot with an entry holding no value) panicked: %v", pv))
				return
			}
			ctx.AddEvals(1, 1)
			if rerr == nil {
				ctx.Count("snapshot_with_an_empty_entry_accepted", 1)
				return
			}
			if after := dump.Values(x.r.DR, x.st); after != before {
				fail("refused-restore-changed-something", "RestoreAt refused a snapshot (one entry holds no value: "+rerr.Error()+") but changed the runner or its storer")
			}
			return
		}
		cs := &c07Snap{real: snap, cp: cp, frozen: dump.String(snap), from: "the host"}
		if d := x.restore(cs); d != "" {
			if strings.Contains(d, "RestoreAt of a snapshot of the same script failed") && (varsKind == 0 || visitsKind == 0) {
				// refusing a snapshot with a missing (nil) field is not forbidden by the property: not constrained
				ctx.Skip("a host-built snapshot with a nil field was refused with an error")
				return
			}
			fail("restore-failed", d)
			return
		}
		n := c.Choose(cont+1, "cont-steps")
		for i := 0; i < n; i++ {
			d := x.step(c.Choose(x.choices(), "cont-choice"))
			if d == "HORIZON" {
				break
			}
			ctx.AddTransitions(1)
			if d != "" {
				fail("restore-trace", d)
				return
			}
			if fd := cs.checkFrozen("after Next following the restore"); fd != "" {
				fail("snapshot-not-self-contained", fd)
				return
			}
		}
		if again, d := x.snapshot(); d != "" {
			fail("snapshot-content", d)
			return
		} else if again != nil {
			_ = again
		}
		ctx.AddEvals(1, 1)
		ctx.AddStates(int64(x.nSteps))
		ctx.AddTraces(1)
	})
}

func runC07(ctx *report.Ctx) {
	b := report.Pick(ctx, c07Bounds{pre: 4, mid: 1, recv: 3, cont: 3}, c07Bounds{pre: 7, mid: 3, recv: 5, cont: 5})
	ctx.Bound("steps_before_save / continuation_of_original / receiver_steps / continuation_after_restore", fmt.Sprintf("%d / %d / %d / %d", b.pre, b.mid, b.recv, b.cont))
	// the family on a storer that is empty at creation: the first checkpoint holds no variable at all
	noVars := &yc.HostSpec{Cmds: c07Host.Cmds}
	b0 := b
	if ctx.Quick() {
		b0 = c07Bounds{pre: 2, mid: 1, recv: 3, cont: 2}
	}
	sr0 := c07Scripts(false)
	if ctx.Quick() {
		sr0 = append(append([]*yc.Program{}, sr0[:5]...), sr0[7]) // without P7 / P8, which the SR part runs
	}
	restoreExplore(ctx, "SR0", sr0, noVars, b0)
	hostSnapshots(ctx, c07Scripts(false), noVars, report.Pick(ctx, 2, 4), report.Pick(ctx, 5, 7))
	sr := c07Scripts(true)
	if ctx.Quick() {
		// the quick tier runs the scripts with failing statements and the padded title with smaller bounds
		restoreExplore(ctx, "SR", append(append([]*yc.Program{}, sr[:5]...), sr[7]), c07Host, b)
		restoreExplore(ctx, "SR-faults", sr[5:7], c07Host, c07Bounds{pre: 4, mid: 0, recv: 2, cont: 3})
	} else {
		restoreExplore(ctx, "SR", sr, c07Host, b)
	}
	// SRK: the host keeps its save value and restores from that very value every time, also a second time after the
	// dialogue has left the node and come back to it (scripts with loops)
	all := c07Scripts(true)
	restoreExplore(ctx, "SRK", report.Pick(ctx, []*yc.Program{all[2]}, []*yc.Program{all[2], all[0]}), c07Host, report.Pick(ctx, c07Bounds{pre: 3, mid: 0, recv: 1, cont: 4, keep: true}, c07Bounds{pre: 5, mid: 1, recv: 3, cont: 6, keep: true}))
}
