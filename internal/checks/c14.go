package checks

import (
	"fmt"
	"strings"
	"time"

	"github.com/remieven/ysgo/markup"
	"github.com/remieven/ysgo/verifx/internal/dump"
	"github.com/remieven/ysgo/verifx/internal/explore"
	mg "github.com/remieven/ysgo/verifx/internal/markupgen"
	"github.com/remieven/ysgo/verifx/internal/report"
	yc "github.com/remieven/ysgo/verifx/internal/yarncore"
)

func init() {
	register(&Check{
		Meta: report.Meta{
			Property: "C14",
			Rule: "P: explicit-state search over one LineParser value: alphabet of about 135 lines (thorough: plus every line of <=3 items of a constructive alphabet, about 6000 lines) (plain, multi-byte, every marker form, typed properties, lines leaving markers open, closers and close-all for them, replacement markers, character prefixes, outer whitespace, and lines failing at every parser stage); transition ParseMarkup(line); " +
				"states keyed by a reflective dump of the parser; from every reachable state every line is parsed and its result (text, attributes in order with positions, lengths, source positions and properties, error or not) compared with that of a fresh parser; the search runs to closure or to depth 3 (quick) / 4 (thorough); " +
				"D: every dialogue in which a marked-up target line is shown after every sequence of <=3 (quick) / 4 (thorough) other lines from a pool including lines whose preparation fails (markup errors, failing expressions), compared with the dialogue showing the target alone; " +
				"every result is overwritten by the host once it is done with it (a property added to every attribute, fields and text overwritten): no later parse, by the same or a fresh parser, may notice; " +
				"every result returned earlier by the same parser is re-read after each later parse and must be unchanged (P, clause earlier-result-changed); " +
				"O: every choice of 2..3 (quick) / 4 (thorough) options over 9 labels, each option compared with its label shown alone as a line; " +
				"a case is one (history, line) pair; non-trivial = history of length >= 1",
			StatesMean:  "distinct LineParser states by reflective dump (P) plus distinct dialogue prefixes (D); transitions = ParseMarkup / Next calls compared with the fresh result",
			Assumptions: []string{"a parser whose dumped state is equal behaves equally (the dump covers every field reachable from the LineParser value)", "errors are compared as error / no error"},
		},
		QuickBudget: 180 * time.Second, ThoroughBudget: 12 * time.Minute, CrashIsViolation: true,
		Run: runC14,
	})
}

func c14Lines() []string {
	lines := []string{
		"", "plain", "héllo 日本 😀", "  padded  ", "a: b", "Bob: hello", "Zoé: [a]x[/a]",
		"[a]x[/a]", "[a]x[/]", "[a/]", "x [a/] y", "[a n=1 x=1.05 s=\"q r\" t=true]x[/a]", "[a=3]x[/a]", "[b]é[a]日[/b]本[/a]", "\\[x\\]", "a\\[b",
		// lines that leave markers open (tolerated), and closers for them
		"[a]open", "Well, [wave]hello", "[a][b]two open", "x[b]", "[a n=1]", "closing[/a]", "closing[/b]", "closing [/wave] it", "all[/]", "[/]", "x[/a]y[/]", "[a]x[/a][/a]",
		// replacement markers
		"[select value=a a=\"one\" b=\"two\"/]", "[plural value=2 one=\"% x\" other=\"% xs\"/]", "[ordinal value=22 one=\"%st\" two=\"%nd\" few=\"%rd\" other=\"%th\"/]",
		"[nomarkup][a]raw[/a][/nomarkup] tail", "[nomarkup]日本[/nomarkup][b]z[/b]", "[select value=a a=\"née\"][/select]!", "é[select value=b a=\"1\" b=\"22\"/]é[a]z[/a]",
		// failing lines: every parser stage
		"[", "[a", "[a ", "[a=", "[a=\"x", "[a n=]", "[a n=1", "[a/", "[/", "[/a", "[1a]", "[ ]", "[a b]", "[a=1.]x", "[a=1.x]", "[=1]", "[a]x[/b]", "[select/]", "[select value=z a=\"1\"/]",
		"[plural value=x one=\"1\"/]", "[ordinal value=1.5 one=\"1\"/]", "[nomarkup]never closed", "[select value=a a=\"1\"]never closed", "[a trimwhitespace=3/] x", "x\\", "\xff[a]\xff[/a]",
		"[a]x[/a] [b n=007]y[/b] z", "[a x=0.007 /]", "Ann: [select value=a a=\"b\"/] [a/] c",
		// whitespace handling around self-closing markers depends on what was read just before them
		"\\[[a/] ok", "\\][b/]  x", "[a/] y", "x[a/] y", "x [a/]y", "[a][b/] y[/a]", "ends with space ", "ends with tab\t", "[a trimwhitespace=true]x [b/] y[/a]", "\\[[a trimwhitespace=true] x[/a]",
	}
	// systematic part: prefixes of a long marked-up line (cuts at every byte leave every kind of partial marker)
	long := "Zoé: [a n=12 s=\"x y\"]日[b/] [/a][select value=a a=\"%!\"/][/]"
	for i := 1; i < len(long); i++ {
		lines = append(lines, long[:i])
	}
	seen := map[string]bool{}
	var out []string
	for _, l := range lines {
		if !seen[l] {
			seen[l] = true
			out = append(out, l)
		}
	}
	return out
}

// c14GeneratedLines: every line of <=2 items of a small constructive alphabet, closed or not (thorough tier).
func c14GeneratedLines() []string {
	var out []string
	items := []func(l *mg.Line){
		func(l *mg.Line) { l.Text("a") }, func(l *mg.Line) { l.Text("é ") }, func(l *mg.Line) { l.Text(" ") },
		func(l *mg.Line) { l.Escape('[') }, func(l *mg.Line) { l.Escape(']') },
		func(l *mg.Line) { l.Open("a", nil, false) }, func(l *mg.Line) { l.Open("b", []mg.Prop{pInt("n", 3), pQuoted("s", `"x y"`, "x y")}, false) },
		func(l *mg.Line) { l.Open("a", []mg.Prop{pFloat("a", "1.05", 1.05)}, true) },
		func(l *mg.Line) { l.Src.WriteString("[/a]") }, func(l *mg.Line) { l.Src.WriteString("[/b]") }, func(l *mg.Line) { l.Src.WriteString("[/]") },
		func(l *mg.Line) { l.SelfClosing("a", nil) }, func(l *mg.Line) { l.SelfClosing("b", []mg.Prop{pBool("trimwhitespace", "false", false)}) },
		func(l *mg.Line) { l.Replacement(`[select value=a a="née" /]`, "née") }, func(l *mg.Line) { l.Replacement(`[nomarkup][b]x[/b][/nomarkup]`, "[b]x[/b]") },
		func(l *mg.Line) { l.Replacement(`[plural value=2 one="%" other="%s"][/plural]`, "2s") },
		func(l *mg.Line) { l.Src.WriteString("[a n=") }, func(l *mg.Line) { l.Src.WriteString("Bob: ") },
	}
	explore.Run(explore.Options{Budget: -1}, func(c *explore.Chooser) {
		n := 1 + c.Choose(3, "n")
		l := &mg.Line{}
		for i := 0; i < n; i++ {
			items[c.Choose(len(items), "item")](l)
		}
		out = append(out, l.Src.String())
	})
	return out
}

// scribbleResult is a host doing what it likes with a result it was given: it adds a property to every attribute
// (also to those that had none), overwrites the attributes and the text. No parser and no other result may notice.
func scribbleResult(res *markup.ParseResult) {
	if res == nil {
		return
	}
	for i := range res.Attributes {
		if res.Attributes[i].Properties != nil {
			res.Attributes[i].Properties["added-by-the-host"] = markup.Value{StringValue: "x", ValueType: markup.ValueTypeString}
		}
		res.Attributes[i].Name = "overwritten-by-the-host"
		res.Attributes[i].Position, res.Attributes[i].Length, res.Attributes[i].SourcePosition = -7, 977, -9
	}
	res.Text = "overwritten by the host"
}

func resultString(res *markup.ParseResult, err error, pan any) string {
	if pan != nil {
		return fmt.Sprintf("PANIC %v", pan)
	}
	if err != nil {
		return "error"
	}
	var b strings.Builder
	fmt.Fprintf(&b, "text=%q", res.Text)
	for _, a := range res.Attributes {
		fmt.Fprintf(&b, " %s", a.Name)
		fmt.Fprintf(&b, "@%d+%d src%d{", a.Position, a.Length, a.SourcePosition)
		b.WriteString(dump.String(a.Properties))
		b.WriteString("}")
	}
	return b.String()
}

func runC14(ctx *report.Ctx) {
	lines := c14Lines()
	if !ctx.Quick() {
		seen := map[string]bool{}
		for _, l := range lines {
			seen[l] = true
		}
		for _, l := range c14GeneratedLines() {
			if !seen[l] {
				seen[l] = true
				lines = append(lines, l)
			}
		}
	}
	ctx.Bound("line_alphabet", len(lines))
	fresh := make([]string, len(lines))
	for i, l := range lines {
		var lp markup.LineParser
		var res *markup.ParseResult
		var err error
		pan := guard(func() { res, err = lp.ParseMarkup(l) })
		fresh[i] = resultString(res, err, pan)
		ctx.Outcome(fresh[i])
	}
	// the results of fresh parsers are written down before any host gets to overwrite a result it was given; a second
	// round after such overwriting must read the same (nothing is shared between results, parsers or the package)
	for i, l := range lines {
		var lp markup.LineParser
		var res *markup.ParseResult
		var err error
		pan := guard(func() { res, err = lp.ParseMarkup(l) })
		if got := resultString(res, err, pan); got != fresh[i] {
			ctx.Violation(report.Violation{Clause: "fresh-parser-history", Witness: fmt.Sprintf("fresh parser, line %q, parsed a second time in this process", l),
				Detail: fmt.Sprintf("the first fresh parser gave %s; a later fresh parser gives %s", fresh[i], got), Part: "P", Extra: map[string]any{"line": l}})
		}
		scribbleResult(res)
	}
	maxDepth := report.Pick(ctx, 3, 4)
	ctx.Bound("history_depth", maxDepth)

	if ctx.Replay == nil || ctx.Replay.Part == "P" {
		// breadth-first search; the roots (histories of length 1) are dealt to the workers
		type node struct{ hist []int }
		seen := map[string]bool{}
		var frontier []node
		for i := range lines {
			if ctx.Replay != nil || i%ctx.ShardCount == ctx.ShardIndex {
				frontier = append(frontier, node{[]int{i}})
			}
		}
		// replayHist also hands out the result of the last parse of the history: a result that was returned
		// must not change when the parser is used again (the runner parses all options of a choice with one
		// parser before it returns them)
		replayHist := func(h []int) (*markup.LineParser, *markup.ParseResult) {
			lp := &markup.LineParser{}
			var last *markup.ParseResult
			for _, i := range h {
				scribbleResult(last) // the host is done with the previous result and has done what it liked with it
				last = nil
				guard(func() { last, _ = lp.ParseMarkup(lines[i]) })
			}
			return lp, last
		}
		states, transitions := int64(0), int64(0)
		closed := true
		for depth := 1; len(frontier) > 0; depth++ {
			var next []node
			for _, nd := range frontier {
				if ctx.Expired() {
					ctx.Capped("deadline in P")
					closed = false
					next = nil
					break
				}
				ctx.Progress.Add(1) // the search is alive (the hang watchdog looks at this counter)
				lp, _ := replayHist(nd.hist)
				key := dump.String(lp)
				if seen[key] {
					continue
				}
				seen[key] = true
				states++
				ctx.Current(fmt.Sprintf("P: history %v", nd.hist))
				// from this state, every line
				for j, l := range lines {
					lp2, earlier := replayHist(nd.hist)
					earlierWas := ""
					if earlier != nil {
						earlierWas = resultString(earlier, nil, nil)
					}
					var res *markup.ParseResult
					var err error
					pan := guard(func() { res, err = lp2.ParseMarkup(l) })
					got := resultString(res, err, pan)
					transitions++
					ctx.AddEvals(1, 1)
					if earlier != nil {
						if now := resultString(earlier, nil, nil); now != earlierWas {
							ctx.Violation(report.Violation{Clause: "earlier-result-changed", Witness: fmt.Sprintf("result of %q after the same parser parsed %q", lines[nd.hist[len(nd.hist)-1]], l),
								Detail: fmt.Sprintf("the result returned for the earlier line was %s; after the later parse the same result value reads %s", earlierWas, now), Part: "P",
								Extra: map[string]any{"earlier": lines[nd.hist[len(nd.hist)-1]], "line": l}})
						}
					}
					if got != fresh[j] {
						var hl []string
						for _, i := range nd.hist {
							hl = append(hl, fmt.Sprintf("%q", lines[i]))
						}
						ctx.Violation(report.Violation{Clause: "parser-history", Witness: fmt.Sprintf("after [%s] parse %q", strings.Join(hl, ", "), l),
							Detail: fmt.Sprintf("a fresh parser gives %s; the parser that has parsed the history gives %s", fresh[j], got), Part: "P",
							Extra: map[string]any{"history": hl, "line": l}})
						continue
					}
					if depth < maxDepth {
						next = append(next, node{append(append([]int{}, nd.hist...), j)})
					}
				}
			}
			frontier = next
			if depth >= maxDepth && len(frontier) > 0 {
				closed = false
				break
			}
		}
		ctx.AddStates(states)
		ctx.AddTransitions(transitions)
		ctx.AddTraces(transitions)
		ctx.Count("parser_states", states)
		if closed {
			ctx.Count("workers_whose_search_reached_closure", 1)
		}
		ctx.Sample(map[string]any{"part": "P", "alphabet_excerpt": lines[7:14], "fresh_result_of_first": fresh[7]})
	}

	// D: dialogue level
	pool := []string{"plain", "[a]x[/a] y", "Well, [wave]hello", "closing[/wave]", "[a", "x[/a]", "v={$nope}", "[select value=z a=\"1\"/]", "é [b n=1/] é", "[nomarkup][c][/nomarkup]"}
	targets := []string{"[a]x[/a]", "Zoé: hi [b n=2]日本[/b]!", "t[/]", "[a/] [select value=a a=\"née\"/] [b]z[/b]", "plain target"}
	dmax := report.Pick(ctx, 3, 4)
	show := func(src []string) (string, bool) {
		script := "title: A\n---\n" + strings.Join(src, "\n") + "\n===\n"
		r, err, pan := yc.NewReal([]string{script}, "abc", nil)
		if err != nil || pan != "" {
			return fmt.Sprintf("load failed: %v %s", err, pan), false
		}
		var last yc.RealObs
		for range src {
			last = r.Next(0)
			if last.Panic != "" {
				return "PANIC " + last.Panic, true
			}
		}
		if last.K != yc.OLine {
			return last.String(), true
		}
		return resultString(&markup.ParseResult{Text: last.Text, Attributes: last.Attrs}, nil, nil), true
	}
	base := map[string]string{}
	for _, t := range targets {
		base[t], _ = show([]string{t})
	}
	part(ctx, "D", -1, func(c *explore.Chooser) {
		k := 1 + c.Choose(dmax, "prefix-length")
		var src []string
		for i := 0; i < k; i++ {
			src = append(src, pool[c.Choose(len(pool), "line")])
		}
		t := targets[c.Choose(len(targets), "target")]
		if !c.Mine() {
			return
		}
		src = append(src, t)
		ctx.Current("D: " + strings.Join(src, " | "))
		got, ok := show(src)
		ctx.AddEvals(1, 1)
		ctx.AddStates(1)
		ctx.AddTransitions(int64(len(src)))
		ctx.AddTraces(1)
		if !ok {
			ctx.HarnessError("C14 D: script does not load: %s :: %v", got, src)
			return
		}
		if got != base[t] {
			ctx.Violation(report.Violation{Clause: "dialogue-history", Witness: fmt.Sprintf("line %q shown after [%s]", t, strings.Join(src[:len(src)-1], " | ")),
				Detail: fmt.Sprintf("shown alone the line gives %s; after the prefix it gives %s", base[t], got), Choices: c.Choices(), Part: "D",
				Extra: map[string]any{"scripts": []string{"title: A\n---\n" + strings.Join(src, "\n") + "\n===\n"}}})
		}
	})

	// O: option groups. The runner prepares all options of a choice with one parser before it returns them:
	// every option of the group must carry the result its label gives when shown alone as a line.
	optLabels := append([]string{"plain", "é [b n=1/] é", "Well, [wave]hello", "[c p=1]q[/c] r [d/]"}, targets...)
	baseOpt := map[string]string{}
	for _, t := range optLabels {
		baseOpt[t], _ = show([]string{t})
	}
	omax := report.Pick(ctx, 3, 4)
	part(ctx, "O", -1, func(c *explore.Chooser) {
		k := 2 + c.Choose(omax-1, "options")
		var labels []string
		for i := 0; i < k; i++ {
			labels = append(labels, optLabels[c.Choose(len(optLabels), "label")])
		}
		if !c.Mine() {
			return
		}
		script := "title: A\n---\n"
		for _, l := range labels {
			script += "-> " + l + "\n"
		}
		script += "===\n"
		ctx.Current("O: " + strings.Join(labels, " | "))
		r, err, pan := yc.NewReal([]string{script}, "abc", nil)
		ctx.AddEvals(1, 1)
		ctx.AddStates(1)
		ctx.AddTransitions(1)
		ctx.AddTraces(1)
		if err != nil || pan != "" {
			ctx.HarnessError("C14 O: script does not load: %v %s :: %q", err, pan, script)
			return
		}
		o := r.Next(0)
		if o.Panic != "" || o.K != yc.OOptions || len(o.Opts) != k {
			ctx.Violation(report.Violation{Clause: "option-group-history", Witness: fmt.Sprintf("options [%s]", strings.Join(labels, " | ")),
				Detail: "the choice was not returned: " + o.String(), Choices: c.Choices(), Part: "O", Extra: map[string]any{"scripts": []string{script}}})
			return
		}
		for i, op := range o.Opts {
			got := resultString(&markup.ParseResult{Text: op.Text, Attributes: op.Attrs}, nil, nil)
			if got != baseOpt[labels[i]] {
				ctx.Violation(report.Violation{Clause: "option-group-history", Witness: fmt.Sprintf("option %d of [%s]", i, strings.Join(labels, " | ")),
					Detail: fmt.Sprintf("shown alone as a line the label gives %s; as option %d of the group it gives %s", baseOpt[labels[i]], i, got), Choices: c.Choices(), Part: "O",
					Extra: map[string]any{"scripts": []string{script}}})
				return
			}
		}
	})
}

// C14AllLines returns the thorough line alphabet (debugging aid).
func C14AllLines() []string {
	lines := c14Lines()
	seen := map[string]bool{}
	for _, l := range lines {
		seen[l] = true
	}
	for _, l := range c14GeneratedLines() {
		if !seen[l] {
			seen[l] = true
			lines = append(lines, l)
		}
	}
	return lines
}
