package checks

import (
	"errors"
	"fmt"
	"reflect"
	"strings"
	"sync"
	"sync/atomic"
	"time"

	"github.com/remieven/ysgo/verifx/internal/explore"
	"github.com/remieven/ysgo/verifx/internal/report"
	yc "github.com/remieven/ysgo/verifx/internal/yarncore"
)

func init() {
	register(&Check{
		Meta: report.Meta{
			Property: "C16",
			Rule: "Go function types built with reflect.FuncOf over the type alphabet {int, int8, int16, int32, int64, uint, float32, float64, bool, string, named variants of int / float64 / string / bool, struct{}, []int, error, a concrete pointer error type, a struct error type used by value, an Errno-like error type, chan error, <-chan error, chan int}: " +
				"FP: every parameter list of 0-2 (quick) / 0-3 (thorough) types plus optional variadic tail x 3 result shapes; FR: every result list of 0-2 types x 2 parameter shapes; CP / CR: the same for commands (results none / error / channel shapes); WIDE: functions and commands of 4-12 (quick) / 16 (thorough) int parameters with one parameter of every other bridgeable type at every position, called with matching arguments, every single-argument replacement and n-1 / n+1 arguments; NAMES: two distinct types printed alike as parameter types of two handlers, every order, one or two runners, functions and commands; REFUSED-KEEPS: every kind of refused registration under a name that already has a handler (host function / command, built-ins floor, string, visited), after which the existing handler must answer as before; AB: a converted command abandoned by RestoreAt while its handler runs, then executed again (each call reports its own outcome); NF: non-function values {nil, 0, \"f\", struct{}{}, a channel, a pointer to a function}; " +
				"each registered through ConvertAndAddFunction / ConvertAndAddCommand with a reflect.MakeFunc probe; for every accepted registration every argument list of length 0-3 (quick) / 0-4 (thorough) over {number 3.7, number -2, number 5000000000 (beyond 32 bits; only compared for parameter kinds it fits), boolean, string} is sent through real script calls (<<call f(..)>>, {f(..)}, <<cmd ..>>); " +
				"oracle (implications only): registration never panics; non-functions and signatures with a parameter or result outside the bridgeable kinds are refused; if accepted, a call never panics, a count / type mismatch is an error, a matching call delivers the Go conversion of each script value to the declared type and the result (or error) comes back converted; " +
				"SEQ: one registration (2-3 parameters or a parameter and a variadic tail) called two or three times in a row with every combination of argument lists, refused calls among them: every call is judged on its own arguments; " +
				"a case is one (signature, argument list, call form); non-trivial = accepted signature",
			StatesMean:  "distinct (signature, argument list, call form) cases; transitions = real Next calls",
			Assumptions: []string{"whether a bridgeable-looking signature (e.g. uint parameters) is accepted is not constrained", "a nil value of function type is not tried (whether it is 'a Go function' is not settled by the statement)", "script numbers outside the range of the declared integer kind are not sent"},
		},
		QuickBudget: 180 * time.Second, ThoroughBudget: 14 * time.Minute, CrashIsViolation: true,
		Run: runC16,
	})
}

type myInt int
type myFloat float64
type myString string
type myBool bool
type myErr struct{ msg string }

func (e *myErr) Error() string { return e.msg }

// error types that are not pointers: a struct used by value, and an Errno-like number
type valErr struct{ msg string }

func (e valErr) Error() string { return "valErr " + e.msg }

type errno uintptr

func (e errno) Error() string { return fmt.Sprint("errno ", uintptr(e)) }

var errorType = reflect.TypeOf((*error)(nil)).Elem()

type tinfo struct {
	t          reflect.Type
	bridgeable bool // a value of this type can be converted from / to a script value
	unclear    bool // acceptance not constrained
}

func c16Types() []tinfo {
	return []tinfo{
		{reflect.TypeOf(int(0)), true, false}, {reflect.TypeOf(int8(0)), true, false}, {reflect.TypeOf(int16(0)), true, false}, {reflect.TypeOf(int32(0)), true, false}, {reflect.TypeOf(int64(0)), true, false},
		{reflect.TypeOf(uint(0)), false, true}, {reflect.TypeOf(float32(0)), true, false}, {reflect.TypeOf(float64(0)), true, false}, {reflect.TypeOf(false), true, false}, {reflect.TypeOf(""), true, false},
		{reflect.TypeOf(myInt(0)), true, false}, {reflect.TypeOf(myFloat(0)), true, false}, {reflect.TypeOf(myString("")), true, false}, {reflect.TypeOf(myBool(false)), true, false},
		{reflect.TypeOf(struct{}{}), false, false}, {reflect.TypeOf([]int(nil)), false, false}, {errorType, false, false}, {reflect.TypeOf((*myErr)(nil)), false, false},
		{reflect.TypeOf((chan error)(nil)), false, false}, {reflect.TypeOf((<-chan error)(nil)), false, false}, {reflect.TypeOf((chan int)(nil)), false, false},
		{reflect.TypeOf(valErr{}), false, false}, {reflect.TypeOf(errno(0)), false, true},
	}
}

// sameNameTypes returns two distinct defined types of the given underlying kind (0 int, 1 float64, 2 string, 3 bool)
// that print alike: both are called Level, declared in two different function scopes.
func sameNameTypes(kind int) (reflect.Type, reflect.Type) {
	a := func() []reflect.Type {
		type Level int
		type Ratio float64
		type Label string
		type Flag bool
		return []reflect.Type{reflect.TypeOf(Level(0)), reflect.TypeOf(Ratio(0)), reflect.TypeOf(Label("")), reflect.TypeOf(Flag(false))}
	}()
	b := func() []reflect.Type {
		type Level int
		type Ratio float64
		type Label string
		type Flag bool
		return []reflect.Type{reflect.TypeOf(Level(0)), reflect.TypeOf(Ratio(0)), reflect.TypeOf(Label("")), reflect.TypeOf(Flag(false))}
	}()
	return a[kind], b[kind]
}

// exampleOf is the value the script argument of NAMES becomes in type t.
func exampleOf(t reflect.Type, kind int) any {
	v := []any{3, 2.5, "s", true}[kind]
	return reflect.ValueOf(v).Convert(t).Interface()
}

var errProbe = errors.New("probe failed on purpose")

// canned result for a bridgeable type, and the script value it must become
func cannedFor(t reflect.Type) (reflect.Value, yc.Value) {
	switch t.Kind() {
	case reflect.Int, reflect.Int8, reflect.Int16, reflect.Int32, reflect.Int64:
		return reflect.ValueOf(7).Convert(t), yc.Num(7)
	case reflect.Float32, reflect.Float64:
		return reflect.ValueOf(2.5).Convert(t), yc.Num(2.5)
	case reflect.Bool:
		return reflect.ValueOf(true).Convert(t), yc.Bool(true)
	case reflect.String:
		return reflect.ValueOf("r").Convert(t), yc.Str("r")
	}
	return reflect.Zero(t), yc.Value{}
}

type scriptArg struct {
	src string
	v   any // float64 | bool | string
}

var c16ArgValues = []scriptArg{{"3.7", 3.7}, {"-2", -2.0}, {"true", true}, {`"s"`, "s"}, {"5000000000", 5000000000.0}}

// expectedArg converts a script value to parameter type t the way Go does; ok=false: type mismatch.
func expectedArg(a scriptArg, t reflect.Type) (reflect.Value, bool) {
	switch v := a.v.(type) {
	case float64:
		switch t.Kind() {
		case reflect.Int8, reflect.Int16, reflect.Int32:
			if v > 2147483647 || v < -2147483648 || (t.Kind() != reflect.Int32 && (v > 127 || v < -128)) {
				// does not fit the declared kind: the conversion is not fixed by the property (only "no panic");
				// an invalid reflect.Value tells the caller not to compare this argument
				return reflect.Value{}, true
			}
			return reflect.ValueOf(v).Convert(t), true
		case reflect.Int, reflect.Int64, reflect.Float32, reflect.Float64:
			return reflect.ValueOf(v).Convert(t), true
		}
	case bool:
		if t.Kind() == reflect.Bool {
			return reflect.ValueOf(v).Convert(t), true
		}
	case string:
		if t.Kind() == reflect.String {
			return reflect.ValueOf(v).Convert(t), true
		}
	}
	return reflect.Value{}, false
}

type c16Runner struct {
	r    *yc.Real
	args []scriptArg
}

func sigString(t reflect.Type) string { return t.String() }

func runC16(ctx *report.Ctx) {
	types := c16Types()
	maxArgs := report.Pick(ctx, 3, 4)
	ctx.Bound("argument_list_length", maxArgs)
	// all argument lists
	var argLists [][]scriptArg
	var rec func(prefix []scriptArg, n int)
	rec = func(prefix []scriptArg, n int) {
		argLists = append(argLists, append([]scriptArg{}, prefix...))
		if n == 0 {
			return
		}
		for _, a := range c16ArgValues {
			rec(append(prefix, a), n-1)
		}
	}
	rec(nil, maxArgs)
	// wide argument lists (for the signatures of part WIDE): n arguments -2 with every one position holding every
	// value, plus the all -2 lists of every length (count mismatches)
	nBase := len(argLists)
	maxWide := report.Pick(ctx, 12, 16)
	wideLists := map[int][]int{}
	for n := 3; n <= maxWide+1; n++ {
		base := make([]scriptArg, n)
		for i := range base {
			base[i] = c16ArgValues[1]
		}
		wideLists[n] = append(wideLists[n], len(argLists))
		argLists = append(argLists, append([]scriptArg{}, base...))
		if n < 4 || n > maxWide {
			continue
		}
		for p := 0; p < n; p++ {
			for _, v := range c16ArgValues {
				if v.src == c16ArgValues[1].src {
					continue
				}
				l := append([]scriptArg{}, base...)
				l[p] = v
				wideLists[n] = append(wideLists[n], len(argLists))
				argLists = append(argLists, l)
			}
		}
	}
	// the argument lists a signature is called with: the complete short ones, unless a part selects others
	var useLists []int
	listIndexes := func() []int {
		if useLists != nil {
			return useLists
		}
		out := make([]int, nBase)
		for i := range out {
			out[i] = i
		}
		return out
	}
	// cached runners: one per argument list, looping
	fnRunners := map[int]*c16Runner{}
	cmdRunners := map[int]*c16Runner{}
	argsSrc := func(args []scriptArg, sep string) string {
		var s []string
		for _, a := range args {
			s = append(s, a.src)
		}
		return strings.Join(s, sep)
	}
	getFn := func(i int) *c16Runner {
		if r := fnRunners[i]; r != nil {
			return r
		}
		a := argsSrc(argLists[i], ", ")
		script := "title: A\n---\n<<call f(" + a + ")>>\nsep\nr={f(" + a + ")}\n<<jump A>>\n===\n"
		r, err, pan := yc.NewReal([]string{script}, "abc", nil)
		if err != nil || pan != "" {
			ctx.HarnessError("C16: harness script does not load: %v %s\n%s", err, pan, script)
			return nil
		}
		fnRunners[i] = &c16Runner{r: r, args: argLists[i]}
		return fnRunners[i]
	}
	getCmd := func(i int) *c16Runner {
		if r := cmdRunners[i]; r != nil {
			return r
		}
		a := strings.ReplaceAll(argsSrc(argLists[i], " "), `"s"`, "s") // command words are bare
		script := "title: A\n---\n<<cmd " + a + ">>\nsep\n<<jump A>>\n===\n"
		r, err, pan := yc.NewReal([]string{script}, "abc", nil)
		if err != nil || pan != "" {
			ctx.HarnessError("C16: harness script does not load: %v %s\n%s", err, pan, script)
			return nil
		}
		cmdRunners[i] = &c16Runner{r: r, args: argLists[i]}
		return cmdRunners[i]
	}

	var mu sync.Mutex
	var probeLog [][]reflect.Value

	// analyse a signature
	type sigInfo struct {
		ft            reflect.Type
		paramsOK      bool // every parameter bridgeable
		paramsUnclear bool
	}
	analyse := func(ft reflect.Type) sigInfo {
		si := sigInfo{ft: ft, paramsOK: true}
		for i := 0; i < ft.NumIn(); i++ {
			t := ft.In(i)
			if ft.IsVariadic() && i == ft.NumIn()-1 {
				t = t.Elem()
			}
			for _, ti := range types {
				if ti.t == t {
					if ti.unclear {
						si.paramsUnclear = true
					} else if !ti.bridgeable {
						si.paramsOK = false
					}
				}
			}
		}
		return si
	}
	typeInfo := func(t reflect.Type) tinfo {
		for _, ti := range types {
			if ti.t == t {
				return ti
			}
		}
		return tinfo{t: t}
	}

	report1 := func(c *explore.Chooser, partName, clause, witness, detail string) {
		ctx.Violation(report.Violation{Clause: clause, Witness: witness, Detail: detail, Choices: c.Choices(), Part: partName})
		// the runners may be left in the middle of an iteration of their script: start afresh
		for k := range fnRunners {
			delete(fnRunners, k)
		}
		for k := range cmdRunners {
			delete(cmdRunners, k)
		}
	}

	// the function family: registers ft (with the given probe behaviour) and sends every argument list
	testFunction := func(c *explore.Chooser, partName string, ft reflect.Type, failing bool) {
		si := analyse(ft)
		name := sigString(ft)
		// result model
		resultsModelled, mustRefuseResults := true, false
		var wantVal yc.Value
		hasVal, hasErr := false, false
		switch ft.NumOut() {
		case 0:
		case 1:
			ti := typeInfo(ft.Out(0))
			switch {
			case ti.bridgeable:
				hasVal = true
			case ft.Out(0) == errorType:
				hasErr = true
			case ti.unclear || ft.Out(0).Implements(errorType):
				resultsModelled = false
			default:
				mustRefuseResults = true
			}
		case 2:
			t0, t1 := typeInfo(ft.Out(0)), ft.Out(1)
			switch {
			case t0.bridgeable && t1 == errorType:
				hasVal, hasErr = true, true
			case t0.bridgeable && t1.Implements(errorType):
				resultsModelled = false
			case t0.unclear:
				resultsModelled = false
			default:
				mustRefuseResults = true
			}
		}
		probe := reflect.MakeFunc(ft, func(in []reflect.Value) []reflect.Value {
			mu.Lock()
			probeLog = append(probeLog, in)
			mu.Unlock()
			out := make([]reflect.Value, ft.NumOut())
			for i := range out {
				t := ft.Out(i)
				switch {
				case t == errorType:
					if failing {
						out[i] = reflect.ValueOf(&errProbe).Elem()
					} else {
						out[i] = reflect.Zero(t)
					}
				case t.Kind() == reflect.Chan:
					ch := reflect.MakeChan(reflect.ChanOf(reflect.BothDir, t.Elem()), 1)
					out[i] = ch.Convert(t)
				default:
					v, _ := cannedFor(t)
					out[i] = v
				}
			}
			return out
		})
		if hasVal {
			_, wantVal = cannedFor(ft.Out(0))
		}
		// register on the first runner to learn acceptance
		first := getFn(0)
		if first == nil {
			return
		}
		var regErr error
		ctx.Current(partName + ": register " + name)
		if p := guard(func() { regErr = first.r.DR.ConvertAndAddFunction("f", probe.Interface()) }); p != nil {
			report1(c, partName, "register-panic", "func "+name, fmt.Sprintf("ConvertAndAddFunction panicked: %v", p))
			return
		}
		ctx.AddEvals(1, b2i(regErr == nil))
		ctx.AddStates(1)
		mustRefuse := !si.paramsOK || mustRefuseResults
		if regErr == nil && mustRefuse {
			report1(c, partName, "register-accepts-unbridgeable", "func "+name, "a signature with a parameter or result that cannot be bridged was accepted")
			// keep going: accepted means callable without panics
		}
		if regErr != nil {
			ctx.Count("signatures_refused", 1)
			return
		}
		ctx.Count("signatures_accepted", 1)
		for _, i := range listIndexes() {
			fr := getFn(i)
			if fr == nil {
				return
			}
			if p := guard(func() { regErr = fr.r.DR.ConvertAndAddFunction("f", probe.Interface()) }); p != nil || regErr != nil {
				report1(c, partName, "register-unstable", "func "+name, fmt.Sprintf("the same registration gave another answer on another runner: %v %v", p, regErr))
				return
			}
			args := fr.args
			witness := fmt.Sprintf("func %s called with (%s)", name, argsSrc(args, ", "))
			ctx.Current(partName + ": " + witness)
			// expectation for the arguments
			match := true
			var wantArgs []reflect.Value
			nin := ft.NumIn()
			if ft.IsVariadic() {
				if len(args) < nin-1 {
					match = false
				}
			} else if len(args) != nin {
				match = false
			}
			if match {
				for j, a := range args {
					var t reflect.Type
					if ft.IsVariadic() && j >= nin-1 {
						t = ft.In(nin - 1).Elem()
					} else {
						t = ft.In(j)
					}
					v, ok := expectedArg(a, t)
					if !ok {
						match = false
						break
					}
					wantArgs = append(wantArgs, v)
				}
			}
			for form := 0; form < 2; form++ { // 0: <<call f(..)>>  1: {f(..)}
				mu.Lock()
				probeLog = nil
				mu.Unlock()
				ro := fr.r.Next(0)
				formName := []string{"<<call f(..)>>", "{f(..)}"}[form]
				ctx.AddEvals(1, 1)
				ctx.AddTransitions(1)
				ctx.AddTraces(1)
				if ro.Panic != "" {
					report1(c, partName, "call-panic", witness, formName+": Next panicked: "+ro.Panic)
					delete(fnRunners, i)
					return
				}
				isErr := ro.K == yc.OError
				ctx.Outcome(fmt.Sprintf("fn match=%v err=%v form=%d nres=%d", match, isErr, form, ft.NumOut()))
				if form == 0 {
					if isErr {
						ro2 := fr.r.Next(0)
						ctx.AddTransitions(1)
						if ro2.Panic != "" || ro2.K != yc.OLine || ro2.Text != "sep" {
							ctx.HarnessError("C16: lost track of the harness script after an error (%s): %s", witness, ro2.String())
							delete(fnRunners, i)
							return
						}
					} else if ro.K != yc.OLine || ro.Text != "sep" {
						ctx.HarnessError("C16: lost track of the harness script (%s): %s", witness, ro.String())
						delete(fnRunners, i)
						return
					}
				}
				mu.Lock()
				calls := probeLog
				mu.Unlock()
				wantErr := !match
				if match && resultsModelled {
					if hasErr && failing {
						wantErr = true
					}
					if form == 1 && !hasVal {
						wantErr = true // a function without a value result used as a value
					}
				}
				if !match {
					if !isErr {
						report1(c, partName, "mismatch-not-an-error", witness, formName+": an argument count / type mismatch did not yield an error: "+ro.String())
						return
					}
					if len(calls) != 0 {
						report1(c, partName, "mismatch-invoked", witness, formName+": the function was invoked although the arguments do not match its parameters")
						return
					}
					continue
				}
				// matching call: invoked exactly once with the converted arguments
				if len(calls) != 1 {
					report1(c, partName, "invocations", witness, fmt.Sprintf("%s: %d invocations of the Go function, 1 expected (result %s)", formName, len(calls), ro.String()))
					return
				}
				got := calls[0]
				// a variadic probe receives the tail as one slice
				var flat []reflect.Value
				for j, g := range got {
					if ft.IsVariadic() && j == nin-1 {
						for k := 0; k < g.Len(); k++ {
							flat = append(flat, g.Index(k))
						}
					} else {
						flat = append(flat, g)
					}
				}
				if len(flat) != len(wantArgs) {
					report1(c, partName, "arguments", witness, fmt.Sprintf("%s: %d arguments delivered, %d expected", formName, len(flat), len(wantArgs)))
					return
				}
				for j := range flat {
					if !wantArgs[j].IsValid() {
						continue
					}
					if flat[j].Type() != wantArgs[j].Type() || flat[j].Interface() != wantArgs[j].Interface() {
						report1(c, partName, "arguments", witness, fmt.Sprintf("%s: argument %d delivered as %v (%s), expected %v (%s)", formName, j, flat[j].Interface(), flat[j].Type(), wantArgs[j].Interface(), wantArgs[j].Type()))
						return
					}
				}
				if !resultsModelled {
					continue
				}
				if wantErr != isErr {
					report1(c, partName, "result-error", witness, fmt.Sprintf("%s: expected error=%v, got %s", formName, wantErr, ro.String()))
					return
				}
				if form == 1 && !wantErr {
					want := "r=" + wantVal.Display()
					if ro.K != yc.OLine || ro.Text != want {
						report1(c, partName, "result-value", witness, fmt.Sprintf("%s: expected line %q, got %s", formName, want, ro.String()))
						return
					}
				}
			}
		}
	}

	pickType := func(c *explore.Chooser, label string) reflect.Type { return types[c.Choose(len(types), label)].t }
	resultShapesForParams := [][]reflect.Type{{}, {reflect.TypeOf(int(0))}, {reflect.TypeOf(""), errorType}}
	maxParams := report.Pick(ctx, 2, 3)
	ctx.Bound("parameters_before_variadic_tail", maxParams)
	part(ctx, "FP", -1, func(c *explore.Chooser) {
		n := c.Choose(maxParams+1, "nparams")
		var in []reflect.Type
		for i := 0; i < n; i++ {
			in = append(in, pickType(c, "param"))
		}
		variadic := c.Choose(1+len(types), "variadic")
		if variadic > 0 {
			in = append(in, reflect.SliceOf(types[variadic-1].t))
		}
		out := resultShapesForParams[c.Choose(len(resultShapesForParams), "results")]
		failing := len(out) == 2 && c.Choose(2, "probe-fails") == 1
		if !c.Mine() {
			return
		}
		testFunction(c, "FP", reflect.FuncOf(in, out, variadic > 0), failing)
	})
	part(ctx, "FR", -1, func(c *explore.Chooser) {
		n := c.Choose(4, "nresults")
		var out []reflect.Type
		for i := 0; i < n; i++ {
			out = append(out, pickType(c, "result"))
		}
		var in []reflect.Type
		if c.Choose(2, "params") == 1 {
			in = []reflect.Type{reflect.TypeOf(myInt(0))}
		}
		failing := c.Choose(2, "probe-fails") == 1
		if !c.Mine() {
			return
		}
		if n == 3 {
			// more than two results must be refused
			ft := reflect.FuncOf(in, out, false)
			probe := reflect.MakeFunc(ft, func([]reflect.Value) []reflect.Value { return nil })
			first := getFn(0)
			var regErr error
			if p := guard(func() { regErr = first.r.DR.ConvertAndAddFunction("g3", probe.Interface()) }); p != nil {
				report1(c, "FR", "register-panic", "func "+sigString(ft), fmt.Sprintf("ConvertAndAddFunction panicked: %v", p))
			} else if regErr == nil {
				report1(c, "FR", "register-accepts-unbridgeable", "func "+sigString(ft), "a function with three results was accepted")
			}
			ctx.AddEvals(1, 0)
			return
		}
		testFunction(c, "FR", reflect.FuncOf(in, out, false), failing)
	})

	// commands
	cmdResultShapes := [][]reflect.Type{{}, {errorType}, {reflect.TypeOf((chan error)(nil))}, {reflect.TypeOf((<-chan error)(nil))}}
	testCommand := func(c *explore.Chooser, partName string, ft reflect.Type, failing bool) {
		si := analyse(ft)
		name := sigString(ft)
		mustRefuseResults, resultsModelled := false, true
		switch ft.NumOut() {
		case 0:
		case 1:
			t := ft.Out(0)
			switch {
			case t == errorType || t == reflect.TypeOf((chan error)(nil)) || t == reflect.TypeOf((<-chan error)(nil)):
			case t.Implements(errorType) || (t.Kind() == reflect.Chan && t.Elem().Implements(errorType)):
				resultsModelled = false
			default:
				mustRefuseResults = true
			}
		default:
			mustRefuseResults = true
		}
		probe := reflect.MakeFunc(ft, func(in []reflect.Value) []reflect.Value {
			mu.Lock()
			probeLog = append(probeLog, in)
			mu.Unlock()
			out := make([]reflect.Value, ft.NumOut())
			for i := range out {
				t := ft.Out(i)
				switch {
				case t == errorType:
					if failing {
						out[i] = reflect.ValueOf(&errProbe).Elem()
					} else {
						out[i] = reflect.Zero(t)
					}
				case t.Kind() == reflect.Chan && t.Elem() == errorType:
					ch := make(chan error, 1)
					if failing {
						ch <- errProbe
					} else {
						ch <- nil
					}
					out[i] = reflect.ValueOf(ch).Convert(t)
				case t.Kind() == reflect.Chan:
					out[i] = reflect.MakeChan(reflect.ChanOf(reflect.BothDir, t.Elem()), 1).Convert(t)
				default:
					v, _ := cannedFor(t)
					out[i] = v
				}
			}
			return out
		})
		first := getCmd(0)
		if first == nil {
			return
		}
		var regErr error
		ctx.Current(partName + ": register command " + name)
		if p := guard(func() { regErr = first.r.DR.ConvertAndAddCommand("cmd", probe.Interface()) }); p != nil {
			report1(c, partName, "register-panic", "command "+name, fmt.Sprintf("ConvertAndAddCommand panicked: %v", p))
			return
		}
		ctx.AddEvals(1, b2i(regErr == nil))
		ctx.AddStates(1)
		if regErr == nil && (!si.paramsOK || mustRefuseResults) {
			report1(c, partName, "register-accepts-unbridgeable", "command "+name, "a command signature with a parameter or result that cannot be bridged was accepted")
		}
		if regErr != nil {
			ctx.Count("signatures_refused", 1)
			return
		}
		ctx.Count("signatures_accepted", 1)
		for _, i := range listIndexes() {
			cr := getCmd(i)
			if cr == nil {
				return
			}
			if p := guard(func() { regErr = cr.r.DR.ConvertAndAddCommand("cmd", probe.Interface()) }); p != nil || regErr != nil {
				report1(c, partName, "register-unstable", "command "+name, fmt.Sprintf("the same registration gave another answer on another runner: %v %v", p, regErr))
				return
			}
			args := cr.args
			witness := fmt.Sprintf("command %s called with <<cmd %s>>", name, argsSrc(args, " "))
			ctx.Current(partName + ": " + witness)
			match := true
			var wantArgs []reflect.Value
			nin := ft.NumIn()
			if ft.IsVariadic() {
				if len(args) < nin-1 {
					match = false
				}
			} else if len(args) != nin {
				match = false
			}
			if match {
				for j, a := range args {
					var t reflect.Type
					if ft.IsVariadic() && j >= nin-1 {
						t = ft.In(nin - 1).Elem()
					} else {
						t = ft.In(j)
					}
					v, ok := expectedArg(a, t)
					if !ok {
						match = false
						break
					}
					wantArgs = append(wantArgs, v)
				}
			}
			mu.Lock()
			probeLog = nil
			mu.Unlock()
			// poll until the command has completed (handlers without channel result run in a goroutine)
			var ro yc.RealObs
			deadline := time.Now().Add(20 * time.Second)
			for {
				ro = cr.r.Next(0)
				ctx.AddTransitions(1)
				if ro.Panic != "" || !ro.Waiting {
					break
				}
				if time.Now().After(deadline) {
					ctx.HarnessError("C16: command never completed (%s)", witness)
					delete(cmdRunners, i)
					return
				}
				time.Sleep(20 * time.Microsecond)
			}
			ctx.AddEvals(1, 1)
			ctx.AddTraces(1)
			if ro.Panic != "" {
				report1(c, partName, "call-panic", witness, "Next panicked: "+ro.Panic)
				delete(cmdRunners, i)
				return
			}
			isErr := ro.K == yc.OError
			ctx.Outcome(fmt.Sprintf("cmd match=%v err=%v nres=%d", match, isErr, ft.NumOut()))
			if isErr {
				ro2 := cr.r.Next(0)
				if ro2.K != yc.OLine || ro2.Text != "sep" {
					ctx.HarnessError("C16: lost track of the command script after an error (%s): %s", witness, ro2.String())
					delete(cmdRunners, i)
					return
				}
			} else if ro.K != yc.OLine || ro.Text != "sep" {
				ctx.HarnessError("C16: lost track of the command script (%s): %s", witness, ro.String())
				delete(cmdRunners, i)
				return
			}
			mu.Lock()
			calls := probeLog
			mu.Unlock()
			if !match {
				if !isErr {
					report1(c, partName, "mismatch-not-an-error", witness, "an argument count / type mismatch did not yield an error")
					return
				}
				if len(calls) != 0 {
					report1(c, partName, "mismatch-invoked", witness, "the command was invoked although the arguments do not match its parameters")
					return
				}
				continue
			}
			if len(calls) != 1 {
				report1(c, partName, "invocations", witness, fmt.Sprintf("%d invocations of the Go command, 1 expected (result %s)", len(calls), ro.String()))
				return
			}
			var flat []reflect.Value
			for j, g := range calls[0] {
				if ft.IsVariadic() && j == nin-1 {
					for k := 0; k < g.Len(); k++ {
						flat = append(flat, g.Index(k))
					}
				} else {
					flat = append(flat, g)
				}
			}
			if len(flat) != len(wantArgs) {
				report1(c, partName, "arguments", witness, fmt.Sprintf("%d arguments delivered, %d expected", len(flat), len(wantArgs)))
				return
			}
			for j := range flat {
				if !wantArgs[j].IsValid() {
					continue
				}
				if flat[j].Type() != wantArgs[j].Type() || flat[j].Interface() != wantArgs[j].Interface() {
					report1(c, partName, "arguments", witness, fmt.Sprintf("argument %d delivered as %v (%s), expected %v (%s)", j, flat[j].Interface(), flat[j].Type(), wantArgs[j].Interface(), wantArgs[j].Type()))
					return
				}
			}
			if resultsModelled {
				wantErr := failing && ft.NumOut() == 1
				if wantErr != isErr {
					report1(c, partName, "result-error", witness, fmt.Sprintf("expected error=%v, got %s", wantErr, ro.String()))
					return
				}
			}
		}
	}
	part(ctx, "CP", -1, func(c *explore.Chooser) {
		n := c.Choose(3, "nparams")
		var in []reflect.Type
		for i := 0; i < n; i++ {
			in = append(in, pickType(c, "param"))
		}
		variadic := c.Choose(1+len(types), "variadic")
		if variadic > 0 {
			in = append(in, reflect.SliceOf(types[variadic-1].t))
		}
		k := c.Choose(len(cmdResultShapes), "results")
		failing := k > 0 && c.Choose(2, "probe-fails") == 1
		if !c.Mine() {
			return
		}
		if ctx.Quick() && n == 2 && variadic > 0 && k > 1 {
			return // the quick tier keeps the largest parameter lists to the first two result shapes
		}
		testCommand(c, "CP", reflect.FuncOf(in, cmdResultShapes[k], variadic > 0), failing)
	})
	part(ctx, "CR", -1, func(c *explore.Chooser) {
		n := c.Choose(3, "nresults")
		var out []reflect.Type
		for i := 0; i < n; i++ {
			out = append(out, pickType(c, "result"))
		}
		failing := c.Choose(2, "probe-fails") == 1
		if !c.Mine() {
			return
		}
		testCommand(c, "CR", reflect.FuncOf([]reflect.Type{reflect.TypeOf(myString(""))}, out, false), failing)
	})

	// WIDE: long parameter lists. n = 4..12 (quick) / 16 (thorough) parameters of type int with one parameter, at every
	// position, of every other bridgeable type; called with n matching arguments, with every single argument
	// replaced by every other value, and with n-1 / n+1 arguments
	var bridgeable []reflect.Type
	for _, ti := range types {
		if ti.bridgeable {
			bridgeable = append(bridgeable, ti.t)
		}
	}
	ctx.Bound("WIDE_parameters", maxWide)
	part(ctx, "WIDE", -1, func(c *explore.Chooser) {
		n := 4 + c.Choose(maxWide-3, "nparams")
		pos := c.Choose(n, "position")
		if !c.Mine() {
			return
		}
		t := bridgeable[c.Choose(len(bridgeable), "type")]
		kind := c.Choose(3, "kind")
		in := make([]reflect.Type, n)
		for i := range in {
			in[i] = reflect.TypeOf(int(0))
		}
		in[pos] = t
		useLists = append(append(append([]int{}, wideLists[n]...), wideLists[n-1][0]), wideLists[n+1][0])
		defer func() { useLists = nil }()
		switch kind {
		case 0:
			testFunction(c, "WIDE", reflect.FuncOf(in, []reflect.Type{reflect.TypeOf(int(0))}, false), false)
		case 1:
			testCommand(c, "WIDE", reflect.FuncOf(in, nil, false), false)
		case 2:
			testCommand(c, "WIDE", reflect.FuncOf(in, []reflect.Type{errorType}, false), true)
		}
	})

	// NAMES: what a registration means does not depend on other registrations. (1) Two distinct Go types with the same
	// printed name (declared in different scopes) as parameter types of two handlers, registered in either order on
	// one runner or on two: each is called with its own converted argument. (2) A refused registration under a name
	// that already has a handler (the host's, or a built-in one) leaves that handler in place.
	part(ctx, "NAMES", -1, func(c *explore.Chooser) {
		kind := c.Choose(4, "underlying-kind")
		order := c.Choose(2, "order")
		twoRunners := c.Choose(2, "runners") == 1
		asCommand := c.Choose(2, "command") == 1
		if !c.Mine() {
			return
		}
		ta, tb := sameNameTypes(kind)
		arg := []string{"3", "2.5", `"s"`, "true"}[kind]
		word := []string{"3", "2.5", "s", "true"}[kind]
		script := "title: A\n---\n<<call fa(" + arg + ")>>\none\n<<call fb(" + arg + ")>>\ntwo\n===\n"
		if asCommand {
			script = "title: A\n---\n<<fa " + word + ">>\none\n<<fb " + word + ">>\ntwo\n===\n"
		}
		witness := fmt.Sprintf("handlers fa(%s) and fb(%s): two distinct types printed alike, registered %s on %s, as %s", ta, tb, []string{"fa first", "fb first"}[order], []string{"one runner", "two runners"}[b2i(twoRunners)], []string{"functions", "commands"}[b2i(asCommand)])
		ctx.Current("NAMES: " + witness)
		ctx.AddEvals(1, 1)
		ctx.AddStates(1)
		ctx.AddTraces(1)
		r1, err, pan := yc.NewReal([]string{script}, "abc", nil)
		r2 := r1
		if twoRunners && err == nil && pan == "" {
			r2, err, pan = yc.NewReal([]string{script}, "abc", nil)
		}
		if err != nil || pan != "" {
			ctx.HarnessError("C16 NAMES: script does not load: %v %s", err, pan)
			return
		}
		var got []string
		mk := func(name string, t reflect.Type) reflect.Value {
			ft := reflect.FuncOf([]reflect.Type{t}, nil, false)
			return reflect.MakeFunc(ft, func(in []reflect.Value) []reflect.Value {
				got = append(got, fmt.Sprintf("%s(%v as %s)", name, in[0].Interface(), in[0].Type()))
				return nil
			})
		}
		reg := func(r *yc.Real, name string, t reflect.Type) (e error, p any) {
			p = guard(func() {
				if asCommand {
					e = r.DR.ConvertAndAddCommand(name, mk(name, t).Interface())
				} else {
					e = r.DR.ConvertAndAddFunction(name, mk(name, t).Interface())
				}
			})
			return
		}
		type regn struct {
			r    *yc.Real
			name string
			t    reflect.Type
		}
		regs := []regn{{r1, "fa", ta}, {r2, "fb", tb}}
		if twoRunners {
			// each runner needs both names; the second runner gets them in the other order
			regs = []regn{{r1, "fa", ta}, {r2, "fb", tb}, {r1, "fb", tb}, {r2, "fa", ta}}
		}
		if order == 1 {
			regs[0], regs[1] = regs[1], regs[0]
		}
		for _, g := range regs {
			if e, p := reg(g.r, g.name, g.t); p != nil || e != nil {
				report1(c, "NAMES", "register-unstable", witness, fmt.Sprintf("registering %s failed: %v %v", g.name, e, p))
				return
			}
		}
		for _, r := range []*yc.Real{r1, r2} {
			got = nil
			waits := 0
			for step := 0; step < 4; step++ {
				ro := r.Next(0)
				ctx.AddTransitions(1)
				if ro.Panic != "" {
					report1(c, "NAMES", "call-panic", witness, "Next panicked: "+ro.Panic)
					return
				}
				if ro.Waiting && waits < 300000 { // up to 30 s: only a handler that never completes gets there
					// a converted command without result runs on its own goroutine: poll (no oracle depends on the time)
					waits++
					step--
					time.Sleep(100 * time.Microsecond)
					continue
				}
				if ro.K == yc.OError {
					report1(c, "NAMES", "result-error", witness, "a matching call was answered with an error: "+ro.String())
					return
				}
				if ro.K == yc.OEnd {
					break
				}
			}
			want := fmt.Sprintf("fa(%v as %s);fb(%v as %s)", exampleOf(ta, kind), ta, exampleOf(tb, kind), tb)
			if strings.Join(got, ";") != want {
				report1(c, "NAMES", "arguments", witness, fmt.Sprintf("invocations [%s], expected [%s]", strings.Join(got, ";"), want))
				return
			}
			if r1 == r2 {
				break
			}
		}
	})
	part(ctx, "REFUSED-KEEPS", -1, func(c *explore.Chooser) {
		name := []string{"f", "floor", "string", "visited"}[c.Choose(4, "name")]
		bad := c.Choose(5, "refused-value")
		asCommand := c.Choose(2, "command") == 1
		if !c.Mine() {
			return
		}
		if asCommand && name != "f" {
			return
		}
		script := map[string]string{"f": "title: A\n---\nr={f(2)}\n===\n", "floor": "title: A\n---\nr={floor(2.5)}\n===\n", "string": "title: A\n---\nr={string(2)}\n===\n", "visited": "title: A\n---\nr={visited(\"A\")}\n===\n"}[name]
		want := map[string]string{"f": "r=4", "floor": "r=2", "string": "r=2", "visited": "r=False"}[name]
		if asCommand {
			script, want = "title: A\n---\n<<f 2>>\nr=done\n===\n", "r=done"
		}
		badValue := []any{func(uint) uint { return 0 }, 42, func(struct{}) int { return 0 }, func() (int, int, int) { return 0, 0, 0 }, "not a function"}[bad]
		witness := fmt.Sprintf("a refused registration (%T) under the name %s, which already has a handler (%s)", badValue, name, []string{"function", "command"}[b2i(asCommand)])
		ctx.Current("REFUSED-KEEPS: " + witness)
		ctx.AddEvals(1, 1)
		ctx.AddStates(1)
		ctx.AddTraces(1)
		r, err, pan := yc.NewReal([]string{script}, "abc", nil)
		if err != nil || pan != "" {
			ctx.HarnessError("C16 REFUSED-KEEPS: script does not load: %v %s", err, pan)
			return
		}
		invoked := 0
		if name == "f" {
			if asCommand {
				err = r.DR.ConvertAndAddCommand("f", func(i int) { invoked++ })
			} else {
				err = r.DR.ConvertAndAddFunction("f", func(i int) int { invoked++; return 2 * i })
			}
			if err != nil {
				ctx.HarnessError("C16 REFUSED-KEEPS: valid registration refused: %v", err)
				return
			}
		}
		var regErr error
		p := guard(func() {
			if asCommand {
				regErr = r.DR.ConvertAndAddCommand(name, badValue)
			} else {
				regErr = r.DR.ConvertAndAddFunction(name, badValue)
			}
		})
		if p != nil {
			report1(c, "REFUSED-KEEPS", "register-panic", witness, fmt.Sprintf("the registration panicked: %v", p))
			return
		}
		if regErr == nil {
			return // accepted (a uint signature may be): nothing to say here
		}
		var ro yc.RealObs
		for k := 0; k < 300000; k++ { // up to 30 s: only a handler that never completes gets there
			ro = r.Next(0)
			ctx.AddTransitions(1)
			if !ro.Waiting {
				break
			}
			time.Sleep(100 * time.Microsecond)
		}
		switch {
		case ro.Panic != "":
			report1(c, "REFUSED-KEEPS", "call-panic", witness, "after the refused registration, calling the existing handler panicked: "+ro.Panic)
		case ro.K != yc.OLine || ro.Text != want:
			report1(c, "REFUSED-KEEPS", "refused-registration-changed-something", witness, fmt.Sprintf("after the refused registration the existing handler no longer answers as before: expected line %q, got %s", want, ro.String()))
		case name == "f" && invoked != 1:
			report1(c, "REFUSED-KEEPS", "refused-registration-changed-something", witness, fmt.Sprintf("the existing handler was invoked %d times", invoked))
		}
	})

	// AB: results are per call: a converted command still running when the host abandons it (RestoreAt), then
	// the same command executed again - the second call must report its own outcome, not the abandoned one's.
	// (Free-running goroutines: on a correct bridge the second call is pending whatever the timing, because its
	// handler is held by a gate; the waiting below only gives a wrong bridge the time to show itself.)
	part(ctx, "AB", -1, func(c *explore.Chooser) {
		shape := c.Choose(3, "shape")
		if !c.Mine() {
			return
		}
		script := "title: A\n---\nL0\n<<cmd 1 true>>\nL1\n===\n"
		r, err, pan := yc.NewReal([]string{script}, "abc", nil)
		if err != nil || pan != "" {
			ctx.HarnessError("C16 AB: %v %s", err, pan)
			return
		}
		gates := []chan struct{}{nil, make(chan struct{}), make(chan struct{})}
		started := make(chan int, 4)
		returned := make(chan int, 4)
		var calls int32
		body := func() error {
			n := int(atomic.AddInt32(&calls, 1))
			started <- n
			if n < len(gates) {
				<-gates[n]
			}
			returned <- n
			if shape == 2 {
				return errProbe
			}
			return nil
		}
		switch shape {
		case 0:
			r.DR.ConvertAndAddCommand("cmd", func(i int, b bool) { body() })
		default:
			r.DR.ConvertAndAddCommand("cmd", func(i int, b bool) error { return body() })
		}
		w := fmt.Sprintf("converted command (%s) abandoned by RestoreAt while running, then executed again", []string{"func(int, bool)", "func(int, bool) error returning nil", "func(int, bool) error returning an error"}[shape])
		ctx.Current("AB: " + w)
		snap := r.DR.Snapshot()
		waitFor := func(ch chan int) bool {
			select {
			case <-ch:
				return true
			case <-time.After(10 * time.Second):
				return false
			}
		}
		ctx.AddEvals(1, 1)
		ctx.AddStates(1)
		if o := r.Next(0); o.K != yc.OLine {
			ctx.HarnessError("C16 AB: expected L0, got %s", o.String())
			return
		}
		o := r.Next(0)
		if !o.Waiting || !waitFor(started) {
			close(gates[1])
			close(gates[2])
			ctx.HarnessError("C16 AB: the gated command is not pending: %s", o.String())
			return
		}
		if err := r.DR.RestoreAt(snap); err != nil {
			ctx.HarnessError("C16 AB: RestoreAt: %v", err)
		}
		close(gates[1]) // the abandoned call finishes now
		waitFor(returned)
		time.Sleep(30 * time.Millisecond) // lets the bridge deliver the abandoned call's outcome wherever it delivers it
		r.Next(0)                         // L0 again
		o = r.Next(0)                     // second execution: its handler is held by gate 2
		stale := !o.Waiting
		close(gates[2])
		if stale {
			report1(c, "AB", "stale-result", w, "the second execution of the command was reported complete ("+o.String()+") while its handler was still held: it received the outcome of the abandoned execution")
			return
		}
		waitFor(returned)
		deadline := time.Now().Add(10 * time.Second)
		for o = r.Next(0); o.Waiting && time.Now().Before(deadline); o = r.Next(0) {
			time.Sleep(50 * time.Microsecond)
		}
		if shape == 2 {
			if o.K != yc.OError || o.Waiting {
				report1(c, "AB", "result-error", w, "the error of the second execution did not come back: "+o.String())
			}
		} else if o.K != yc.OLine || o.Text != "L1" {
			report1(c, "AB", "result-error", w, "after the second execution expected L1, got "+o.String())
		}
	})

	// SEQ: one registration called several times in a row with different argument lists (refused calls among them): every
	// call is judged on its own arguments, whatever the calls before it were given and whether they were refused
	seqTypes := []reflect.Type{reflect.TypeOf(int(0)), reflect.TypeOf(""), reflect.TypeOf(true), reflect.TypeOf(float64(0)), reflect.TypeOf(myInt(0))}
	seqVals := []scriptArg{c16ArgValues[1], c16ArgValues[2], c16ArgValues[3]}
	part(ctx, "SEQ", -1, func(c *explore.Chooser) {
		isCmd := c.Choose(2, "kind") == 1
		shape := c.Choose(4, "shape") // 0: two parameters, all types and values, two calls; 1: two parameters, three calls; 2: three parameters, two calls; 3: one parameter and a variadic tail, two calls
		nt, nparams, ncalls, vals := 3, 2, 2, seqVals
		switch shape {
		case 0:
			nt, vals = len(seqTypes), c16ArgValues
		case 1:
			ncalls = 3
		case 2:
			nparams = 3
		}
		var in []reflect.Type
		for i := 0; i < nparams; i++ {
			in = append(in, seqTypes[c.Choose(nt, "param")])
		}
		variadic := shape == 3
		if variadic {
			in[1] = reflect.SliceOf(in[1])
		}
		var out []reflect.Type
		if isCmd && c.Choose(2, "result") == 1 {
			out = []reflect.Type{errorType}
		}
		if !c.Mine() {
			return
		}
		var lists [][]scriptArg
		for k := 0; k < ncalls; k++ {
			n := nparams
			if variadic {
				n = 1 + c.Choose(3, "nargs")
			}
			var l []scriptArg
			for i := 0; i < n; i++ {
				l = append(l, vals[c.Choose(len(vals), "arg")])
			}
			lists = append(lists, l)
		}
		ft := reflect.FuncOf(in, out, variadic)
		var b strings.Builder
		b.WriteString("title: A\n---\n")
		var shown []string
		for _, l := range lists {
			if isCmd {
				a := strings.ReplaceAll(argsSrc(l, " "), `"s"`, "s")
				b.WriteString("<<cmd " + a + ">>\nsep\n")
				shown = append(shown, "<<cmd "+a+">>")
			} else {
				b.WriteString("<<call f(" + argsSrc(l, ", ") + ")>>\nsep\n")
				shown = append(shown, "f("+argsSrc(l, ", ")+")")
			}
		}
		b.WriteString("===\n")
		witness := fmt.Sprintf("%s called in a row: %s", sigString(ft), strings.Join(shown, " then "))
		ctx.Current("SEQ: " + witness)
		r, err, pan := yc.NewReal([]string{b.String()}, "abc", nil)
		if err != nil || pan != "" {
			ctx.HarnessError("C16: harness script does not load: %v %s\n%s", err, pan, b.String())
			return
		}
		probe := reflect.MakeFunc(ft, func(in []reflect.Value) []reflect.Value {
			mu.Lock()
			probeLog = append(probeLog, in)
			mu.Unlock()
			o := make([]reflect.Value, ft.NumOut())
			for i := range o {
				o[i] = reflect.Zero(ft.Out(i))
			}
			return o
		})
		var regErr error
		if p := guard(func() {
			if isCmd {
				regErr = r.DR.ConvertAndAddCommand("cmd", probe.Interface())
			} else {
				regErr = r.DR.ConvertAndAddFunction("f", probe.Interface())
			}
		}); p != nil || regErr != nil {
			report1(c, "SEQ", "register-panic", witness, fmt.Sprintf("registration of a bridgeable signature failed: %v %v", p, regErr))
			return
		}
		for k, args := range lists {
			match := true
			var wantArgs []reflect.Value
			for j, a := range args {
				var t reflect.Type
				if variadic && j >= 1 {
					t = ft.In(1).Elem()
				} else {
					t = ft.In(j)
				}
				v, ok := expectedArg(a, t)
				if !ok {
					match = false
					break
				}
				wantArgs = append(wantArgs, v)
			}
			mu.Lock()
			probeLog = nil
			mu.Unlock()
			var ro yc.RealObs
			deadline := time.Now().Add(20 * time.Second)
			for {
				ro = r.Next(0)
				ctx.AddTransitions(1)
				if ro.Panic != "" || !ro.Waiting {
					break
				}
				if time.Now().After(deadline) {
					ctx.HarnessError("C16: command never completed (%s)", witness)
					return
				}
				time.Sleep(20 * time.Microsecond)
			}
			ctx.AddEvals(1, 1)
			ctx.AddTraces(1)
			if ro.Panic != "" {
				report1(c, "SEQ", "call-panic", witness, fmt.Sprintf("call %d: Next panicked: %s", k+1, ro.Panic))
				return
			}
			isErr := ro.K == yc.OError
			ctx.Outcome(fmt.Sprintf("seq cmd=%v call=%d match=%v err=%v", isCmd, k, match, isErr))
			if isErr {
				ro = r.Next(0)
			}
			if ro.K != yc.OLine || ro.Text != "sep" {
				report1(c, "SEQ", "call-sequence", witness, fmt.Sprintf("after call %d the dialogue does not go on with the line that follows it: %s", k+1, ro.String()))
				return
			}
			mu.Lock()
			calls := probeLog
			mu.Unlock()
			if !match {
				if !isErr {
					report1(c, "SEQ", "mismatch-not-an-error", witness, fmt.Sprintf("call %d: a type mismatch did not yield an error", k+1))
					return
				}
				if len(calls) != 0 {
					report1(c, "SEQ", "mismatch-invoked", witness, fmt.Sprintf("call %d: the Go function was invoked although the arguments do not match its parameters", k+1))
					return
				}
				continue
			}
			if isErr {
				report1(c, "SEQ", "result-error", witness, fmt.Sprintf("call %d: matching arguments were refused: %s", k+1, ro.String()))
				return
			}
			if len(calls) != 1 {
				report1(c, "SEQ", "invocations", witness, fmt.Sprintf("call %d: %d invocations of the Go function, 1 expected", k+1, len(calls)))
				return
			}
			var flat []reflect.Value
			for j, g := range calls[0] {
				if variadic && j == 1 {
					for q := 0; q < g.Len(); q++ {
						flat = append(flat, g.Index(q))
					}
				} else {
					flat = append(flat, g)
				}
			}
			if len(flat) != len(wantArgs) {
				report1(c, "SEQ", "arguments", witness, fmt.Sprintf("call %d: %d arguments delivered, %d expected", k+1, len(flat), len(wantArgs)))
				return
			}
			for j := range flat {
				if wantArgs[j].IsValid() && (flat[j].Type() != wantArgs[j].Type() || flat[j].Interface() != wantArgs[j].Interface()) {
					report1(c, "SEQ", "arguments", witness, fmt.Sprintf("call %d: argument %d delivered as %v (%s), expected %v (%s)", k+1, j, flat[j].Interface(), flat[j].Type(), wantArgs[j].Interface(), wantArgs[j].Type()))
					return
				}
			}
		}
	})

	// NF: non-function values
	part(ctx, "NF", -1, func(c *explore.Chooser) {
		fn := func() {}
		values := []any{nil, 0, "f", struct{}{}, make(chan error), &fn, []int{1}, map[string]int{}, 3.5, true}
		k := c.Choose(len(values), "value")
		asCommand := c.Choose(2, "as-command") == 1
		if !c.Mine() {
			return
		}
		r := getFn(0)
		if r == nil {
			return
		}
		var err error
		w := fmt.Sprintf("non-function value %T registered as function", values[k])
		reg := func() { err = r.r.DR.ConvertAndAddFunction("nf", values[k]) }
		if asCommand {
			w = fmt.Sprintf("non-function value %T registered as command", values[k])
			reg = func() { err = r.r.DR.ConvertAndAddCommand("nf", values[k]) }
		}
		ctx.AddEvals(1, 1)
		ctx.AddStates(1)
		if p := guard(reg); p != nil {
			report1(c, "NF", "register-panic", w, fmt.Sprintf("registration panicked: %v", p))
		} else if err == nil {
			report1(c, "NF", "register-accepts-non-function", w, "registration of a value that is not a function succeeded")
		}
	})
	ctx.Sample(map[string]any{"example_signature": "func(checks.myInt, ...string) (string, error)", "argument_lists": len(argLists), "forms": []string{"<<call f(..)>>", "{f(..)}", "<<cmd ..>>"}})
}
