package checks

import (
	"fmt"
	"sort"
	"strings"
	"time"

	"github.com/remieven/ysgo/variable"
	"github.com/remieven/ysgo/verifx/internal/explore"
	"github.com/remieven/ysgo/verifx/internal/report"
	yc "github.com/remieven/ysgo/verifx/internal/yarncore"
)

func init() {
	register(&Check{
		Meta: report.Meta{
			Property: "C03",
			Rule: "I: every initial store (v in {none, number, boolean, string} x w in {none, number, string}) x every statement (set/declare x {$v,$w} x {=,+=,-=,*=,/=,%=} x right-hand sides {2, 0, true, \"a\", other variable, unknown variable, ill-typed expression}) x every single host write before it; " +
				"H: every history of <=3 (quick) / 4 (thorough) statements over a reduced alphabet plus reads, with up to 1 (quick) / 2 (thorough) host writes between steps; L: every compound assignment executed repeatedly in a jump loop; SNAP: save / restore histories (the exploration of C07, first two scripts, small bounds) with one host write before the save point; L2: every assignment of a compound expression (<=2 arithmetic operators, negation) over {$v,$w,1,2} executed three times in a jump loop with up to 2 host writes between steps; strings containing % among the stored and appended values; " +
				"each on a harness-implemented recording storer, on a recording wrapper around the library's in-memory storer and on a harness storer that hands out the very boxed values it keeps; after every Next: GetValues and GetValue of every name against the model store, one type per name, and every successful assignment reached the host's storer; non-trivial = every case (each runs at least one assignment)",
			StatesMean:  "(history, trace prefix) pairs; transitions = real Next calls and host writes",
			Assumptions: []string{"small-scope hypothesis", "histories are compared up to the first failing statement (what follows an error is not fixed by the property)"},
		},
		QuickBudget: 180 * time.Second, ThoroughBudget: 14 * time.Minute, CrashIsViolation: true,
		Run: runC03,
	})
}

// recStorer is a harness-implemented variable.Storer: one map, one type per name, and a log of
// the mutating calls the runner issued.
type recStorer struct {
	vals  map[string]yc.Value
	calls []string
}

func newRecStorer() *recStorer { return &recStorer{vals: map[string]yc.Value{}} }

func (s *recStorer) GetValue(n string) (*variable.Value, bool) {
	v, ok := s.vals[n]
	if !ok {
		return nil, false
	}
	return yc.ToVar(v), true
}
func (s *recStorer) GetValues() map[string]variable.Value {
	out := map[string]variable.Value{}
	for k, v := range s.vals {
		out[k] = *yc.ToVar(v)
	}
	return out
}
func (s *recStorer) Contains(n string) bool { _, ok := s.vals[n]; return ok }
func (s *recStorer) SetNumberValue(n string, v float64) {
	s.calls = append(s.calls, "set "+n+"="+yc.Num(v).String())
	s.vals[n] = yc.Num(v)
}
func (s *recStorer) SetBooleanValue(n string, v bool) {
	s.calls = append(s.calls, "set "+n+"="+yc.Bool(v).String())
	s.vals[n] = yc.Bool(v)
}
func (s *recStorer) SetStringValue(n string, v string) {
	s.calls = append(s.calls, "set "+n+"="+yc.Str(v).String())
	s.vals[n] = yc.Str(v)
}
func (s *recStorer) Clear()                         { s.calls = append(s.calls, "clear"); s.vals = map[string]yc.Value{} }
func (s *recStorer) hostWrite(n string, v yc.Value) { s.vals[n] = v }
func (s *recStorer) callLog() []string              { return s.calls }

// wrapStorer records the mutating calls and delegates to the library's in-memory storer.
type wrapStorer struct {
	*variable.InMemoryStorer
	calls []string
}

func newWrapStorer() *wrapStorer { return &wrapStorer{InMemoryStorer: variable.NewInMemoryStorer()} }
func (s *wrapStorer) SetNumberValue(n string, v float64) {
	s.calls = append(s.calls, "set "+n+"="+yc.Num(v).String())
	s.InMemoryStorer.SetNumberValue(n, v)
}
func (s *wrapStorer) SetBooleanValue(n string, v bool) {
	s.calls = append(s.calls, "set "+n+"="+yc.Bool(v).String())
	s.InMemoryStorer.SetBooleanValue(n, v)
}
func (s *wrapStorer) SetStringValue(n string, v string) {
	s.calls = append(s.calls, "set "+n+"="+yc.Str(v).String())
	s.InMemoryStorer.SetStringValue(n, v)
}
func (s *wrapStorer) Clear() { s.calls = append(s.calls, "clear"); s.InMemoryStorer.Clear() }
func (s *wrapStorer) hostWrite(n string, v yc.Value) {
	switch v.K {
	case yc.VNum:
		s.InMemoryStorer.SetNumberValue(n, v.N)
	case yc.VBool:
		s.InMemoryStorer.SetBooleanValue(n, v.B)
	case yc.VStr:
		s.InMemoryStorer.SetStringValue(n, v.S)
	}
}
func (s *wrapStorer) callLog() []string { return s.calls }

// boxStorer is a host storer that keeps one boxed value per name and hands out that very box on every read (a
// legal implementation of the interface: the library has no business writing through what GetValue returns).
type boxStorer struct {
	vals  map[string]*variable.Value
	calls []string
}

func newBoxStorer() *boxStorer { return &boxStorer{vals: map[string]*variable.Value{}} }
func (s *boxStorer) GetValue(n string) (*variable.Value, bool) {
	v, ok := s.vals[n]
	return v, ok
}
func (s *boxStorer) GetValues() map[string]variable.Value {
	out := map[string]variable.Value{}
	for k, v := range s.vals {
		out[k] = *v
	}
	return out
}
func (s *boxStorer) Contains(n string) bool { _, ok := s.vals[n]; return ok }
func (s *boxStorer) SetNumberValue(n string, v float64) {
	s.calls = append(s.calls, "set "+n+"="+yc.Num(v).String())
	s.vals[n] = variable.NewNumber(v)
}
func (s *boxStorer) SetBooleanValue(n string, v bool) {
	s.calls = append(s.calls, "set "+n+"="+yc.Bool(v).String())
	s.vals[n] = variable.NewBoolean(v)
}
func (s *boxStorer) SetStringValue(n string, v string) {
	s.calls = append(s.calls, "set "+n+"="+yc.Str(v).String())
	s.vals[n] = variable.NewString(v)
}
func (s *boxStorer) Clear() {
	s.calls = append(s.calls, "clear")
	s.vals = map[string]*variable.Value{}
}
func (s *boxStorer) hostWrite(n string, v yc.Value) { s.vals[n] = yc.ToVar(v) }
func (s *boxStorer) callLog() []string              { return s.calls }

type loggingStorer interface {
	variable.Storer
	hostWrite(n string, v yc.Value)
	callLog() []string
}

var hostValues = []yc.Value{yc.Num(41), yc.Bool(false), yc.Str("host")}

func c03Walk(ctx *report.Ctx, c *explore.Chooser, partName string, p *yc.Program, init map[string]yc.Value, storerKind int, devBudget int, maxJumps int, refusals ...int) {
	var cur loggingStorer
	initCalls := 0
	nref := 0
	if len(refusals) > 0 {
		nref = refusals[0]
	}
	wo := yc.WalkOpts{MaxSteps: 16, MaxJumps: maxJumps, CompareStore: true, StrictErrors: true, DevBudget: devBudget, Refusals: nref,
		NewStorer: func() variable.Storer {
			switch storerKind {
			case 0:
				cur = newRecStorer()
			case 1:
				cur = newWrapStorer()
			default:
				cur = newBoxStorer()
			}
			initCalls = -1
			return cur
		},
		Step: func(m *yc.Machine, r *yc.Real, mo *yc.Obs, ro yc.RealObs) string {
			if initCalls < 0 {
				// the pre-population of the storer by the harness went through the logged calls
				initCalls = len(init)
			}
			// the exact sequence of mutating calls is not demanded by the property (an implementation may
			// write twice, or re-write an unchanged value): only their effect is compared, by CompareStore.
			// A statement that succeeds must however have reached the storer the host supplied: at least
			// one mutating call per successful assignment.
			calls := cur.callLog()
			if len(calls)-initCalls < len(m.Writes) {
				return fmt.Sprintf("%d successful assignments so far, but only %d mutating calls reached the storer supplied by the host", len(m.Writes), len(calls)-initCalls)
			}
			// one name, one type: GetValue and GetValues must agree for every name known to either
			all := cur.GetValues()
			for name, v := range all {
				single, ok := cur.GetValue(name)
				if !ok {
					return fmt.Sprintf("GetValues reports %s but GetValue does not", name)
				}
				a, _ := yc.FromVar(&v)
				b, _ := yc.FromVar(single)
				if a.K != b.K {
					return fmt.Sprintf("storer reports %s under two types: GetValues %s, GetValue %s", name, a, b)
				}
			}
			return ""
		},
	}
	if devBudget != 0 {
		wo.Host = func(ch *explore.Chooser, step int, m *yc.Machine, st variable.Storer) {
			k := ch.ChooseDev(2+2*len(hostValues), "host-write")
			if k == 0 {
				return
			}
			if k == 1+2*len(hostValues) {
				// the host empties its storer (a new game): no variable is known any more
				st.Clear()
				for name := range m.Store {
					delete(m.Store, name)
				}
				m.Notes = append(m.Notes, fmt.Sprintf("after step %d the host cleared its storer", step))
				return
			}
			name := []string{"v", "w"}[(k-1)%2]
			val := hostValues[(k-1)/2]
			cur.hostWrite(name, val)
			m.Store[name] = val
			m.Notes = append(m.Notes, fmt.Sprintf("after step %d the host wrote %s=%s", step, name, val))
		}
	}
	hs := &yc.HostSpec{Vars: init}
	// poke(x): a host function that writes $v = x into the host's storer while the dialogue is running a chain of statements
	hs.ModelFuncs = map[string]yc.ModelFunc{"poke": func(m *yc.Machine, args []yc.Value) yc.FuncResult {
		if len(args) != 1 {
			return yc.FuncResult{Err: true}
		}
		m.Store["v"] = args[0]
		return yc.FuncResult{}
	}}
	wo.Setup = func(r *yc.Real, log *[]string) {
		r.DR.AddFunction("poke", func(args []*variable.Value) (*variable.Value, error) {
			if len(args) != 1 {
				return nil, fmt.Errorf("poke takes one argument")
			}
			cur.hostWrite("v", yc.RealArgs(args)[0])
			return nil, nil
		})
	}
	walkProgram(ctx, c, partName, p, hs, wo, nil, "initial store {"+initString(init)+"}", []string{"harness storer", "wrapped InMemoryStorer", "harness storer handing out its own boxed values"}[storerKind])
}

func initString(init map[string]yc.Value) string {
	var ks []string
	for k, v := range init {
		ks = append(ks, k+"="+v.String())
	}
	sort.Strings(ks)
	return strings.Join(ks, ",")
}

func runC03(ctx *report.Ctx) {
	allOps := []string{"=", "+=", "-=", "*=", "/=", "%="}
	rhsFull := func(other string) []*yc.Expr {
		return []*yc.Expr{yc.ENumber(2), yc.ENumber(0), yc.EBoolean(true), yc.EString("a"), yc.EVariable(other), yc.EVariable("u"),
			yc.EBinary("+", yc.ENumber(1), yc.EString("a")), yc.ENumber(0.5), yc.EString(""), yc.EString("%d %s")}
	}
	initV := []*yc.Value{nil, {K: yc.VNum, N: 6}, {K: yc.VBool, B: true}, {K: yc.VStr, S: "s"}, {K: yc.VStr, S: "100%"}}
	initW := []*yc.Value{nil, {K: yc.VNum, N: 3}, {K: yc.VStr, S: "t"}}
	mkInit := func(c *explore.Chooser) map[string]yc.Value {
		init := map[string]yc.Value{}
		if v := initV[c.Choose(len(initV), "init-v")]; v != nil {
			init["v"] = *v
		}
		if w := initW[c.Choose(len(initW), "init-w")]; w != nil {
			init["w"] = *w
		}
		return init
	}
	readLine := func(name string) *yc.Stmt {
		return yc.LineOf(&yc.LineSpec{Parts: []yc.Part{{Src: name + "=", Want: name + "="}, {E: yc.EVariable(name)}}})
	}

	// I: initial store x one statement x one host write
	part(ctx, "I", 1, func(c *explore.Chooser) {
		init := mkInit(c)
		name := []string{"v", "w"}[c.Choose(2, "var")]
		other := map[string]string{"v": "w", "w": "v"}[name]
		var st *yc.Stmt
		k := c.Choose(len(allOps)+1, "op")
		rhs := rhsFull(other)
		e := rhs[c.Choose(len(rhs), "rhs")]
		if k == len(allOps) {
			if e.K == yc.EBin {
				e = yc.ENullLit() // declare takes a value, not an expression: use the null literal as the faulty value
			}
			st = yc.Declare(name, e)
		} else {
			st = yc.Set(name, allOps[k], e)
		}
		kind := c.Choose(3, "storer")
		if !c.Mine() {
			return
		}
		p := &yc.Program{Nodes: []*yc.Node{{Title: "A", Body: []*yc.Stmt{yc.Line("L0"), st, yc.Line("L1"), readLine("v"), readLine("w")}}}}
		c03Walk(ctx, c, "I", p, init, kind, 1, 2)
	})

	// RF: the family I once more without host write; instead, between any two steps (or before the first), the host performs
	// one operation the library refuses (restoring a snapshot of another script that names an unknown node and holds every
	// variable under another type; registering values that are no functions): the variables are what they were
	part(ctx, "RF", 1, func(c *explore.Chooser) {
		init := mkInit(c)
		name := []string{"v", "w"}[c.Choose(2, "var")]
		other := map[string]string{"v": "w", "w": "v"}[name]
		k := c.Choose(len(allOps), "op")
		rhs := rhsFull(other)
		e := rhs[c.Choose(len(rhs), "rhs")]
		kind := c.Choose(3, "storer")
		if !c.Mine() {
			return
		}
		p := &yc.Program{Nodes: []*yc.Node{{Title: "A", Body: []*yc.Stmt{yc.Line("L0"), yc.Set(name, allOps[k], e), yc.Line("L1"), readLine("v"), readLine("w")}}}}
		c03Walk(ctx, c, "RF", p, init, kind, 0, 2, 1)
	})

	// MIDCHAIN: the storer is the source of truth also inside one call of Next: an assignment, then a host function that
	// writes the variable into the storer (called by the script: <<call poke(x)>>), then a compound assignment or a
	// type-checked assignment - no line in between: the last statement works on what the storer holds now
	part(ctx, "MIDCHAIN", 0, func(c *explore.Chooser) {
		firsts := []*yc.Stmt{yc.Set("v", "=", yc.ENumber(10)), yc.Declare("v", yc.ENumber(10)), yc.Set("v", "=", yc.EString("a")), yc.Set("v", "=", yc.EBoolean(true)), nil}
		pokes := []*yc.Expr{yc.ENumber(4), yc.EString("b"), yc.EBoolean(false)}
		first := firsts[c.Choose(len(firsts), "first")]
		poke := pokes[c.Choose(len(pokes), "poked-value")]
		k := c.Choose(len(allOps), "op")
		rhs := []*yc.Expr{yc.ENumber(1), yc.EString("c"), yc.EBoolean(true), yc.EVariable("v")}
		e := rhs[c.Choose(len(rhs), "rhs")]
		kind := c.Choose(3, "storer")
		if !c.Mine() {
			return
		}
		body := []*yc.Stmt{yc.Line("L0")}
		if first != nil {
			body = append(body, first)
		}
		body = append(body, yc.Call("poke", poke), yc.Set("v", allOps[k], e), yc.Line("L1"), readLine("v"))
		p := &yc.Program{Nodes: []*yc.Node{{Title: "A", Body: body}}}
		c03Walk(ctx, c, "MIDCHAIN", p, map[string]yc.Value{}, kind, 0, 2)
	})

	// H: histories
	hlen := report.Pick(ctx, 3, 4)
	hdev := report.Pick(ctx, 1, 2)
	ctx.Bound("H", fmt.Sprintf("histories of <=%d statements, host-write budget %d", hlen, hdev))
	hOps := []string{"=", "+=", "*="}
	part(ctx, "H", hdev, func(c *explore.Chooser) {
		n := 1 + c.Choose(hlen, "len")
		body := []*yc.Stmt{yc.Line("L0")}
		for i := 0; i < n; i++ {
			name := []string{"v", "w"}[c.Choose(2, "var")]
			other := map[string]string{"v": "w", "w": "v"}[name]
			rhs := []*yc.Expr{yc.ENumber(2), yc.EString("a"), yc.EBoolean(true), yc.EVariable(other)}
			k := c.Choose(len(hOps)+2, "kind")
			switch {
			case k < len(hOps):
				body = append(body, yc.Set(name, hOps[k], rhs[c.Choose(len(rhs), "rhs")]))
			case k == len(hOps):
				body = append(body, yc.Declare(name, rhs[c.Choose(3, "rhs")]))
			default:
				body = append(body, readLine(name))
				continue
			}
			body = append(body, yc.Line(fmt.Sprintf("L%d", i+1)))
		}
		body = append(body, readLine("v"), readLine("w"))
		kind := c.Choose(3, "storer")
		if !c.Mine() {
			return
		}
		p := &yc.Program{Nodes: []*yc.Node{{Title: "A", Body: body}}}
		c03Walk(ctx, c, "H", p, map[string]yc.Value{}, kind, hdev, 2)
	})

	// L2: an assignment whose right-hand side is a compound expression over variables, executed several times
	// (loop through a jump) while the host writes the variables between steps: every execution stores the
	// value the expression has now
	{
		atoms := []func() *yc.Expr{func() *yc.Expr { return yc.EVariable("v") }, func() *yc.Expr { return yc.EVariable("w") }, func() *yc.Expr { return yc.ENumber(1) }, func() *yc.Expr { return yc.ENumber(2) }}
		arith := []string{"+", "*", "-"}
		part(ctx, "L2", 2, func(c *explore.Chooser) {
			atom := func() *yc.Expr { return atoms[c.Choose(len(atoms), "atom")]() }
			var e *yc.Expr
			switch c.Choose(5, "shape") {
			case 0:
				e = yc.EBinary(arith[c.Choose(3, "op1")], yc.EBinary(arith[c.Choose(3, "op2")], atom(), atom()), atom())
			case 1:
				e = yc.EBinary(arith[c.Choose(3, "op1")], atom(), yc.EBinary(arith[c.Choose(3, "op2")], atom(), atom()))
			case 2:
				e = yc.EBinary(arith[c.Choose(3, "op1")], yc.ENegate(atom()), atom())
			case 3:
				e = yc.ENegate(yc.EBinary(arith[c.Choose(3, "op1")], atom(), atom()))
			case 4:
				e = yc.EBinary(arith[c.Choose(3, "op1")], atom(), atom())
			}
			op := []string{"=", "+="}[c.Choose(2, "op")]
			kind := c.Choose(3, "storer")
			if !c.Mine() {
				return
			}
			p := &yc.Program{Nodes: []*yc.Node{
				{Title: "S", Body: []*yc.Stmt{yc.Set("t", "=", yc.ENumber(0)), yc.Jump("A")}},
				{Title: "A", Body: []*yc.Stmt{yc.Set("t", op, e), readLine("t"), yc.Set("v", "+=", yc.ENumber(1)), yc.Jump("A")}},
			}}
			c03Walk(ctx, c, "L2", p, map[string]yc.Value{"v": yc.Num(6), "w": yc.Num(3)}, kind, 2, 3)
		})
	}

	// SNAP: a value the host wrote into its storer is the variable's value like any assigned one - also across a node
	// entry followed by Snapshot / RestoreAt (the checkpoint of the variables is taken from the storer, not from the
	// runner's own record of assignments): the save / restore exploration of C07 on its first two scripts, small
	// bounds, with one host write between two steps before the save point
	restoreExplore(ctx, "SNAP", c07Scripts(true)[3:5], c07Host, c07Bounds{pre: report.Pick(ctx, 3, 5), mid: 0, recv: 0, cont: 2})

	// L: the same assignment statement executed several times (loop through a jump)
	rounds := report.Pick(ctx, 4, 6)
	part(ctx, "L", 0, func(c *explore.Chooser) {
		startVals := []*yc.Expr{yc.ENumber(6), yc.ENumber(0.5), yc.EString("s"), yc.EString("5%")}
		start := startVals[c.Choose(len(startVals), "start")]
		op := allOps[c.Choose(len(allOps), "op")]
		rhs := []*yc.Expr{yc.ENumber(2), yc.ENumber(1), yc.ENumber(0.5), yc.EString("a"), yc.EVariable("v"), yc.EBinary("+", yc.ENumber(1), yc.ENumber(1)), yc.EString("%v")}
		e := rhs[c.Choose(len(rhs), "rhs")]
		viaDeclare := c.Choose(2, "declare-first") == 1
		kind := c.Choose(3, "storer")
		if !c.Mine() {
			return
		}
		first := yc.Set("v", "=", start)
		if viaDeclare {
			first = yc.Declare("v", start)
		}
		p := &yc.Program{Nodes: []*yc.Node{
			{Title: "S", Body: []*yc.Stmt{first, yc.Jump("A")}},
			{Title: "A", Body: []*yc.Stmt{yc.Set("v", op, e), readLine("v"), yc.Jump("A")}},
		}}
		c03Walk(ctx, c, "L", p, map[string]yc.Value{}, kind, 0, rounds)
	})
}
