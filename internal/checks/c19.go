package checks

import (
	"fmt"
	"math"
	"math/big"
	"sort"
	"strings"
	"time"

	"github.com/remieven/ysgo/variable"
	"github.com/remieven/ysgo/verifx/internal/explore"
	"github.com/remieven/ysgo/verifx/internal/report"
	yc "github.com/remieven/ysgo/verifx/internal/yarncore"
)

func init() {
	register(&Check{
		Meta: report.Meta{
			Property: "C19",
			Rule: "a structured finite alphabet of doubles, every member of which is tried: every x = +-m*2^e with m < 2^15 (quick) / 2^20 (thorough), e in [-12,51], |x| < 2^52; every integer k in [-1100,1100] with k+-1/2 and the doubles adjacent to each; +-0; every k/10^p (|k|<=2000, p<=4) with its neighbours; 2^j and 2^j+-1 with neighbours for j<=51; " +
				"for each x the built-ins floor, ceil, inc, dec, integer, decimal, round, number(string(x)) and round_places(x,n) for n in 0..8 are evaluated by the real runner in one looping script ($x supplied through a harness storer; floor, ceil, round and integer are called a second time in the same argument list on $y = x+1.5) and captured typed by a host function; " +
				"oracle: the inequalities of the property in exact rational arithmetic (math/big), integrality by big.Float.IsInt; round_places is granted one ulp of x plus one ulp of the result; conversions over booleans, numbers and a list of strings, each alone on a fresh runner and every ordered pair of them alternating on one runner (E1 E2 E1 E2: the same answer every time, whatever was converted or refused before); " +
				"a case is one x (all built-ins); non-trivial = x is not an integer",
			StatesMean:  "distinct numbers x tried; transitions = real Next calls (one per x, evaluating 18 built-in calls)",
			Assumptions: []string{"numbers outside the structured alphabet are not covered (no random bit patterns: sampling is not used)", "round_places: half-unit bound plus one ulp of x plus one ulp of the result (neither is a decimal in general)", "strings whose status as number / boolean is debatable (\" 1\", \"1e3\", \"1\" as boolean, \"TRUE\") are not constrained"},
		},
		QuickBudget: 180 * time.Second, ThoroughBudget: 14 * time.Minute, CrashIsViolation: true,
		Run: runC19,
	})
}

func c19Values() []float64 {
	set := map[uint64]float64{}
	add := func(x float64) {
		if math.IsNaN(x) || math.IsInf(x, 0) || math.Abs(x) >= (1<<52) {
			return
		}
		set[math.Float64bits(x)] = x
	}
	around := func(x float64) {
		add(x)
		add(math.Nextafter(x, math.Inf(1)))
		add(math.Nextafter(x, math.Inf(-1)))
	}
	for k := -1100; k <= 1100; k++ {
		around(float64(k))
		around(float64(k) + 0.5)
		around(float64(k) - 0.5)
	}
	add(0)
	add(math.Copysign(0, -1))
	for p := 1; p <= 4; p++ {
		for k := -2000; k <= 2000; k++ {
			around(float64(k) / math.Pow10(p))
		}
	}
	for j := 0; j <= 51; j++ {
		b := math.Ldexp(1, j)
		for _, s := range []float64{1, -1} {
			around(s * b)
			around(s * (b + 1))
			around(s * (b - 1))
			around(s * (b + 0.5))
		}
	}
	out := make([]float64, 0, len(set))
	for _, x := range set {
		out = append(out, x)
	}
	sort.Slice(out, func(i, j int) bool {
		ai, aj := math.Abs(out[i]), math.Abs(out[j])
		if ai != aj {
			return ai < aj
		}
		return math.Signbit(out[j]) && !math.Signbit(out[i])
	})
	return out
}

func ratOf(x float64) *big.Rat { r := new(big.Rat); r.SetFloat64(x); return r }
func isInt(x float64) bool     { return new(big.Float).SetFloat64(x).IsInt() }

func ulp(x float64) float64 {
	x = math.Abs(x)
	return math.Nextafter(x, math.Inf(1)) - x
}

// c19Oracle checks the captured values for x; "" means every contract holds.
func c19Oracle(x float64, v map[string]float64) string {
	X := ratOf(x)
	one := big.NewRat(1, 1)
	half := big.NewRat(1, 2)
	le := func(a, b *big.Rat) bool { return a.Cmp(b) <= 0 }
	lt := func(a, b *big.Rat) bool { return a.Cmp(b) < 0 }
	for _, name := range []string{"floor", "ceil", "inc", "dec", "integer", "decimal", "round", "roundtrip"} {
		if f := v[name]; math.IsNaN(f) || math.IsInf(f, 0) {
			return fmt.Sprintf("%s(%v) = %v", name, x, f)
		}
	}
	if f := v["floor"]; !isInt(f) || !le(ratOf(f), X) || !lt(X, new(big.Rat).Add(ratOf(f), one)) {
		return fmt.Sprintf("floor(%v) = %v violates floor(x) <= x < floor(x)+1", x, f)
	}
	if c := v["ceil"]; !isInt(c) || !lt(new(big.Rat).Sub(ratOf(c), one), X) || !le(X, ratOf(c)) {
		return fmt.Sprintf("ceil(%v) = %v violates ceil(x)-1 < x <= ceil(x)", x, c)
	}
	if i := v["inc"]; !isInt(i) || !lt(X, ratOf(i)) || !le(new(big.Rat).Sub(ratOf(i), one), X) {
		return fmt.Sprintf("inc(%v) = %v is not the least integer greater than x", x, i)
	}
	if d := v["dec"]; !isInt(d) || !lt(ratOf(d), X) || !le(X, new(big.Rat).Add(ratOf(d), one)) {
		return fmt.Sprintf("dec(%v) = %v is not the greatest integer less than x", x, d)
	}
	t := v["integer"]
	absX, absT := new(big.Rat).Abs(X), new(big.Rat).Abs(ratOf(t))
	if !isInt(t) || !le(absT, absX) || !lt(new(big.Rat).Sub(absX, absT), one) || (t != 0 && (t < 0) != (x < 0)) {
		return fmt.Sprintf("integer(%v) = %v does not truncate toward zero", x, t)
	}
	if d := v["decimal"]; t+d != x {
		return fmt.Sprintf("integer(%v) + decimal(%v) = %v + %v = %v, not x", x, x, t, d, t+d)
	}
	r := v["round"]
	if diff := new(big.Rat).Abs(new(big.Rat).Sub(ratOf(r), X)); !isInt(r) || !le(diff, half) {
		return fmt.Sprintf("round(%v) = %v is not an integer within 0.5 of x", x, r)
	}
	if rt := v["roundtrip"]; rt != x {
		return fmt.Sprintf("number(string(%v)) = %v", x, rt)
	}
	for n := 0; n <= 8; n++ {
		rp := v[fmt.Sprintf("rp%d", n)]
		if math.IsNaN(rp) || math.IsInf(rp, 0) {
			return fmt.Sprintf("round_places(%v,%d) = %v", x, n, rp)
		}
		unit := new(big.Rat).SetFrac(big.NewInt(1), new(big.Int).Exp(big.NewInt(10), big.NewInt(int64(n)), nil))
		bound := new(big.Rat).Mul(unit, half)
		bound.Add(bound, ratOf(ulp(x)))
		bound.Add(bound, ratOf(ulp(rp)))
		if diff := new(big.Rat).Abs(new(big.Rat).Sub(ratOf(rp), X)); !le(diff, bound) {
			return fmt.Sprintf("round_places(%v,%d) = %v is further than half a unit of the %d-th decimal place (plus one ulp of x and of the result) from x", x, n, rp, n)
		}
	}
	return ""
}

const c19Script = `title: A
---
<<call cap(floor($x), ceil($x), inc($x), dec($x), integer($x), decimal($x), round($x), number(string($x)), round_places($x,0), round_places($x,1), round_places($x,2), round_places($x,3), round_places($x,4), round_places($x,5), round_places($x,6), round_places($x,7), round_places($x,8), floor($y), ceil($y), round($y), integer($y), -number(2.5), number(-0.75), -number(number(4)), round_places(-number(1.235), 2))>>
sep
<<jump A>>
===
`

var c19Names = []string{"floor", "ceil", "inc", "dec", "integer", "decimal", "round", "roundtrip", "rp0", "rp1", "rp2", "rp3", "rp4", "rp5", "rp6", "rp7", "rp8", "floorY", "ceilY", "roundY", "integerY", "negNumberLit", "numberNegLit", "negNumberNumber", "rpNegNumber"}

func runC19(ctx *report.Ctx) {
	values := c19Values()
	ctx.Bound("special_numbers", len(values))
	mbits := report.Pick(ctx, 15, 20)
	ctx.Bound("mantissa_bits", mbits)
	st := newRecStorer()
	st.hostWrite("x", yc.Num(0))
	st.hostWrite("y", yc.Num(0))
	r, err, pan := yc.NewReal([]string{c19Script}, "abc", st)
	if err != nil || pan != "" {
		ctx.HarnessError("C19: harness script does not load: %v %s", err, pan)
		return
	}
	// a host that tried to register something unusable under the names of the built-ins (refused, as it must be): the
	// built-ins are what they were
	refused := 0
	for _, name := range []string{"floor", "ceil", "round", "round_places", "inc", "dec", "decimal", "integer", "int", "string", "number", "bool"} {
		var rerr error
		if p := guard(func() { rerr = r.DR.ConvertAndAddFunction(name, 42) }); p != nil {
			ctx.Violation(report.Violation{Clause: "builtin-failed", Witness: "registration of a non-function under " + name, Detail: fmt.Sprintf("ConvertAndAddFunction panicked: %v", p), Part: "N"})
			return
		}
		if rerr != nil {
			refused++
		}
	}
	ctx.Bound("refused_registrations_under_built_in_names_before_the_run", refused)
	var captured []*variable.Value
	r.DR.AddFunction("cap", func(args []*variable.Value) (*variable.Value, error) {
		captured = args
		return nil, nil
	})
	tryX := func(c *explore.Chooser, partName string, x float64) {
		ctx.Current(fmt.Sprintf("%s: x=%v (bits %016x)", partName, x, math.Float64bits(x)))
		st.hostWrite("x", yc.Num(x))
		// a second number, used by further calls of the same built-ins in the same argument list: the result
		// of one call must not be affected by another call of the same function
		y := x + 1.5
		if math.Abs(y) >= (1 << 52) {
			y = x - 1.5
		}
		st.hostWrite("y", yc.Num(y))
		captured = nil
		ro := r.Next(0)
		ctx.AddEvals(1, b2i(x != math.Trunc(x)))
		ctx.AddStates(1)
		ctx.AddTransitions(1)
		ctx.AddTraces(1)
		w := fmt.Sprintf("x=%v (bits %016x)", x, math.Float64bits(x))
		if ro.Panic != "" || ro.K != yc.OLine || len(captured) != len(c19Names) {
			ctx.Violation(report.Violation{Clause: "builtin-failed", Witness: w, Detail: fmt.Sprintf("evaluating the built-ins on x failed: %s %v (captured %d values)", ro.String(), ro.Err, len(captured)), Choices: c.Choices(), Part: partName})
			// resynchronise
			r, _, _ = yc.NewReal([]string{c19Script}, "abc", st)
			r.DR.AddFunction("cap", func(args []*variable.Value) (*variable.Value, error) { captured = args; return nil, nil })
			return
		}
		v := map[string]float64{}
		for k, name := range c19Names {
			if captured[k] == nil || captured[k].Number == nil {
				ctx.Violation(report.Violation{Clause: "builtin-type", Witness: w, Detail: name + " did not return a number", Choices: c.Choices(), Part: partName})
				return
			}
			v[name] = *captured[k].Number
		}
		ctx.OutcomeHash(math.Float64bits(v["round"]-x) ^ math.Float64bits(v["rp2"]-x)<<1)
		d := c19Oracle(x, v)
		if d == "" {
			// number of a value that already is a number returns it unchanged - on every execution of the statement
			for name, want := range map[string]float64{"negNumberLit": -2.5, "numberNegLit": -0.75, "negNumberNumber": -4} {
				if v[name] != want {
					d = fmt.Sprintf("%s: the constant expression gave %v on this execution of the statement, %v expected (-number(2.5), number(-0.75), -number(number(4)))", name, v[name], want)
				}
			}
			if r := v["rpNegNumber"]; d == "" && math.Abs(r-(-1.24)) > 0.006 {
				d = fmt.Sprintf("round_places(-number(1.235), 2) = %v on this execution of the statement", r)
			}
		}
		if d == "" {
			// the calls on y, by the same contracts
			vy := map[string]float64{"floor": v["floorY"], "ceil": v["ceilY"], "round": v["roundY"], "integer": v["integerY"]}
			Y := ratOf(y)
			one, half := big.NewRat(1, 1), big.NewRat(1, 2)
			switch {
			case !isInt(vy["floor"]) || ratOf(vy["floor"]).Cmp(Y) > 0 || Y.Cmp(new(big.Rat).Add(ratOf(vy["floor"]), one)) >= 0:
				d = fmt.Sprintf("floor(%v) = %v (second call of floor in the same argument list, after floor(%v))", y, vy["floor"], x)
			case !isInt(vy["ceil"]) || ratOf(vy["ceil"]).Cmp(Y) < 0 || new(big.Rat).Sub(ratOf(vy["ceil"]), one).Cmp(Y) >= 0:
				d = fmt.Sprintf("ceil(%v) = %v (second call of ceil in the same argument list)", y, vy["ceil"])
			case !isInt(vy["round"]) || new(big.Rat).Abs(new(big.Rat).Sub(ratOf(vy["round"]), Y)).Cmp(half) > 0:
				d = fmt.Sprintf("round(%v) = %v (second call of round in the same argument list)", y, vy["round"])
			case vy["integer"] != math.Trunc(y):
				d = fmt.Sprintf("integer(%v) = %v (second call of integer in the same argument list)", y, vy["integer"])
			}
		}
		if d != "" {
			ctx.Violation(report.Violation{Clause: "numeric-contract", Witness: w, Detail: d, Choices: c.Choices(), Part: partName,
				Extra: map[string]any{"x": x, "values": v}})
		} else if ctx.WantSample() && x != math.Trunc(x) && math.Abs(x) > 100 {
			ctx.Sample(map[string]any{"x": x, "values": v})
		}
	}
	// special values (integers, halves, decimal fractions, powers of two, each with its neighbours)
	part(ctx, "N", -1, func(c *explore.Chooser) {
		hi := c.Choose((len(values)+255)/256, "block")
		if !c.Mine() {
			return
		}
		lo := c.Choose(256, "index")
		if i := hi*256 + lo; i < len(values) {
			tryX(c, "N", values[i])
		}
	})
	// every +-m*2^e, m odd below 2^mbits (every double has exactly one such representation)
	part(ctx, "M", -1, func(c *explore.Chooser) {
		e := -12 + c.Choose(64, "exponent")
		mhi := c.Choose(1<<(mbits-9), "mantissa-high")
		if !c.Mine() {
			return
		}
		mlo := c.Choose(256, "mantissa-low")
		neg := c.Choose(2, "sign") == 1
		m := (mhi*256+mlo)*2 + 1
		x := math.Ldexp(float64(m), e)
		if x >= (1 << 52) {
			return
		}
		if neg {
			x = -x
		}
		tryX(c, "M", x)
	})

	// conversions
	type conv struct {
		expr string
		want *yc.Value // nil with mustErr=false: not constrained (no panic only)
		err  bool
	}
	nv := func(f float64) *yc.Value { v := yc.Num(f); return &v }
	bv := func(b bool) *yc.Value { v := yc.Bool(b); return &v }
	sv := func(s string) *yc.Value { v := yc.Str(s); return &v }
	convs := []conv{
		{`bool(string(true))`, bv(true), false}, {`bool(string(false))`, bv(false), false},
		{`string("abc")`, sv("abc"), false}, {`string("")`, sv(""), false}, {`number(2.5)`, nv(2.5), false}, {`number(-0.125)`, nv(-0.125), false}, {`bool(true)`, bv(true), false}, {`bool(false)`, bv(false), false},
		{`number("1")`, nv(1), false}, {`number("-2.5")`, nv(-2.5), false}, {`number("0")`, nv(0), false}, {`bool("true")`, bv(true), false}, {`bool("false")`, bv(false), false}, {`bool("True")`, bv(true), false}, {`bool("False")`, bv(false), false},
		{`number("")`, nil, true}, {`number("abc")`, nil, true}, {`number("true")`, nil, true}, {`number("yes")`, nil, true}, {`number("x1")`, nil, true}, {`number("1 2")`, nil, true},
		{`bool("")`, nil, true}, {`bool("abc")`, nil, true}, {`bool("yes")`, nil, true}, {`bool("2.5")`, nil, true}, {`bool("maybe")`, nil, true},
		{`number(" 1")`, nil, false}, {`number("1e3")`, nil, false}, {`bool("1")`, nil, false}, {`bool("TRUE")`, nil, false}, {`number(true)`, nil, false}, {`bool(1)`, nil, false}, {`string(1.5)`, sv("1.5"), false}, {`string(3)`, sv("3"), false}, {`string(true)`, sv("True"), false},
	}
	// CONV2: two conversions alternating on one runner, each statement executed twice (E1 E2, then the node is entered again: E1 E2): what a conversion yields - a
	// value or an error - does not depend on what was converted (or refused) before, nor on how often
	convs2 := append(append([]conv{}, convs...),
		conv{`string("ab") + "c"`, sv("abc"), false}, conv{`"c" + string("ab")`, sv("cab"), false}, conv{`string("ab") + string("ab")`, sv("abab"), false},
		conv{`number(2) + 1`, nv(3), false}, conv{`number("2") * number("2")`, nv(4), false}, conv{`string(number("12"))`, sv("12"), false}, conv{`bool(string(bool("true")))`, bv(true), false})
	part(ctx, "CONV2", -1, func(c *explore.Chooser) {
		i1 := c.Choose(len(convs2), "first")
		if !c.Mine() {
			return
		}
		i2 := c.Choose(len(convs2), "second")
		pair := []conv{convs2[i1], convs2[i2]}
		var b strings.Builder
		b.WriteString("title: A\n---\n")
		// the two statements are executed twice each: the node is entered again through a jump
		for k := 0; k < 2; k++ {
			b.WriteString("<<call cap(" + pair[k].expr + ")>>\nm\n")
		}
		b.WriteString("<<jump A>>\n===\n")
		w := fmt.Sprintf("conversions in a row: %s, %s, %s, %s", pair[0].expr, pair[1].expr, pair[0].expr, pair[1].expr)
		ctx.Current("CONV2: " + w)
		r, err, pan := yc.NewReal([]string{b.String()}, "abc", nil)
		if err != nil || pan != "" {
			ctx.HarnessError("C19: harness script does not load: %v %s\n%s", err, pan, b.String())
			return
		}
		var got []yc.Value
		r.DR.AddFunction("cap", func(args []*variable.Value) (*variable.Value, error) { got = yc.RealArgs(args); return nil, nil })
		ctx.AddEvals(1, 1)
		ctx.AddStates(1)
		for k := 0; k < 4; k++ {
			cv := pair[k%2]
			got = nil
			ro := r.Next(0)
			ctx.AddTransitions(1)
			if ro.Panic != "" {
				ctx.Violation(report.Violation{Clause: "conversion-failed", Witness: w, Detail: fmt.Sprintf("evaluation %d (%s) panicked: %s", k+1, cv.expr, ro.Panic), Choices: c.Choices(), Part: "CONV2"})
				return
			}
			isErr := ro.K == yc.OError
			if isErr {
				ro = r.Next(0)
				ctx.AddTransitions(1)
			}
			if ro.K != yc.OLine || ro.Text != "m" {
				ctx.Violation(report.Violation{Clause: "conversion-failed", Witness: w, Detail: fmt.Sprintf("after evaluation %d (%s) the dialogue does not go on with the next line: %s", k+1, cv.expr, ro.String()), Choices: c.Choices(), Part: "CONV2"})
				return
			}
			ctx.Outcome(fmt.Sprintf("%s err=%v %v", cv.expr, isErr, got))
			switch {
			case cv.err && (!isErr || got != nil):
				ctx.Violation(report.Violation{Clause: "conversion-not-an-error", Witness: w, Detail: fmt.Sprintf("evaluation %d: %s must be an error (a string that is not a number / boolean); got %v", k+1, cv.expr, got), Choices: c.Choices(), Part: "CONV2"})
				return
			case cv.want != nil && (isErr || len(got) != 1 || !got[0].Equal(*cv.want)):
				ctx.Violation(report.Violation{Clause: "conversion-value", Witness: w, Detail: fmt.Sprintf("evaluation %d: %s: expected %s, got %v (error %v)", k+1, cv.expr, cv.want, got, isErr), Choices: c.Choices(), Part: "CONV2"})
				return
			}
		}
	})
	part(ctx, "CONV", -1, func(c *explore.Chooser) {
		cv := convs[c.Choose(len(convs), "conversion")]
		if !c.Mine() {
			return
		}
		p := &yc.Program{Nodes: []*yc.Node{{Title: "A", Body: []*yc.Stmt{yc.Call("cap", yc.ERawOf(cv.expr, cv.err)), yc.Line("end")}}}}
		srcs := yc.Render(p, nil)
		var got []yc.Value
		fr := yc.FreeWalk(srcs, yc.FreeOpts{MaxSteps: 3, Setup: func(r *yc.Real, log *[]string) {
			r.DR.AddFunction("cap", func(args []*variable.Value) (*variable.Value, error) { got = yc.RealArgs(args); return nil, nil })
		}})
		ctx.AddEvals(1, 1)
		ctx.AddStates(1)
		ctx.AddTransitions(fr.Steps)
		w := "conversion " + cv.expr
		switch {
		case fr.Panic != "" || fr.LoadErr != nil || fr.LoadPanic != "":
			ctx.Violation(report.Violation{Clause: "conversion-failed", Witness: w, Detail: fmt.Sprintf("%s %v %s", fr.Panic, fr.LoadErr, fr.LoadPanic), Choices: c.Choices(), Part: "CONV"})
		case cv.err && (fr.Errors == 0 || got != nil):
			ctx.Violation(report.Violation{Clause: "conversion-not-an-error", Witness: w, Detail: fmt.Sprintf("converting a string that is not a number / boolean must be an error; got %v", got), Choices: c.Choices(), Part: "CONV"})
		case cv.want != nil && (len(got) != 1 || !got[0].Equal(*cv.want)):
			ctx.Violation(report.Violation{Clause: "conversion-value", Witness: w, Detail: fmt.Sprintf("expected %s, got %v (errors %d)", cv.want, got, fr.Errors), Choices: c.Choices(), Part: "CONV"})
		}
	})
}
