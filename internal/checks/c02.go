package checks

import (
	"fmt"
	"github.com/remieven/ysgo/variable"
	"math"
	"strings"
	"time"

	"github.com/remieven/ysgo/verifx/internal/explore"
	"github.com/remieven/ysgo/verifx/internal/report"
	yc "github.com/remieven/ysgo/verifx/internal/yarncore"
)

func init() {
	register(&Check{
		Meta: report.Meta{
			Property: "C02",
			Rule: "G1 typing: every unary and binary operator x every ordered pair of operands from {0,1,2,-3,0.5,NaN,+Inf,-Inf,true,false,\"\",\"a\",\"b\",$n,$b,$s,$unknown}; " +
				"STR: every string literal of <=3 symbols over {a, space, é, 日, {, }, //, #, <<, >>, [, ], ', -, ->, ===} alone, concatenated and compared; LIT: every number literal spelling of <=4 (quick) / 5 (thorough) digits over {0,1,7,8,9} (leading zeros) plus long digit strings around 2^31, 2^53, 2^63, 2^64 and beyond, each with 10 fraction spellings, alone, inside arithmetic and compared with its decimal value; G1-again: every operator on literal operands evaluated three times on one runner; G2 grouping: every expression tree with <=2 (quick) / <=3 (thorough, reduced operands) operators over all 14 binary and 2 unary operators, printed with minimal, full and redundant parentheses and every operator spelling; " +
				"G3 evaluation order: every operator and nested call shapes with probe functions (also failing ones) as operands; values are captured typed by a host function (<<call cap(expr)>>) and the probe log is compared with the reference evaluator; " +
				"a case is one (expression, rendering); non-trivial = expression with at least one operator",
			StatesMean:  "distinct (expression, rendering) cases; transitions = real Next calls",
			Assumptions: []string{"small-scope hypothesis on expression size", "operand alphabet as listed (values outside it are not explored)", "numbers compared with == (NaN equal to NaN, sign of zero ignored)"},
		},
		QuickBudget: 180 * time.Second, ThoroughBudget: 14 * time.Minute, CrashIsViolation: true,
		Run: runC02,
	})
}

func kImpl(args []yc.Value) (yc.Value, bool, bool) {
	// k combines its arguments positionally so that any mix-up of argument values shows
	acc := 0.0
	for i, a := range args {
		switch a.K {
		case yc.VNum:
			acc = acc*10 + a.N
		case yc.VBool:
			if a.B {
				acc = acc*10 + 8
			} else {
				acc = acc*10 + 9
			}
		case yc.VStr:
			acc = acc*10 + float64(len(a.S)) + 0.5
		}
		_ = i
	}
	return yc.Num(acc), true, false
}

var exprHost = &yc.HostSpec{
	Funcs: []yc.FuncSpec{
		{Name: "cap"},
		{Name: "pn1", Result: &yc.Value{K: yc.VNum, N: 4}}, {Name: "pn2", Result: &yc.Value{K: yc.VNum, N: 6}},
		{Name: "pt", Result: &yc.Value{K: yc.VBool, B: true}}, {Name: "pf", Result: &yc.Value{K: yc.VBool, B: false}},
		{Name: "ps", Result: &yc.Value{K: yc.VStr, S: "z"}}, {Name: "pfail", Fails: true}, {Name: "pnone"},
		{Name: "k", Impl: kImpl},
	},
	Vars: map[string]yc.Value{"n": yc.Num(2), "b": yc.Bool(true), "s": yc.Str("a"), "f": yc.Bool(false)},
}

func exprCase(ctx *report.Ctx, c *explore.Chooser, partName string, e *yc.Expr, lay *yc.Layout) {
	p := &yc.Program{Nodes: []*yc.Node{{Title: "A", Body: []*yc.Stmt{yc.Call("cap", e), yc.Line("end")}}}}
	// the host's storer hands out the very boxed values it keeps (legal: evaluation has no business writing through
	// what GetValue returns); the store is compared after the evaluation
	wo := yc.WalkOpts{MaxSteps: 3, CompareLog: true, CompareStore: true, StrictErrors: true, NewStorer: func() variable.Storer { return newBoxStorer() }}
	srcs := yc.Render(p, lay)
	ctx.Current(partName + ": " + srcs[0])
	mm, st := yc.Walk(p, srcs, exprHost, wo)
	ctx.AddEvals(1, 1)
	ctx.AddStates(1)
	ctx.AddTransitions(st.Steps)
	ctx.AddTraces(1)
	mv := yc.NewMachine(p, exprHost.Model())
	v, err := mv.Eval(e)
	want := v.String()
	if err != nil {
		want = "error"
	}
	ctx.Outcome(want + "|" + fmt.Sprint(len(mv.Log)))
	if mm != nil {
		text := yc.RenderExpr(e, lay)
		ctx.Violation(report.Violation{
			Clause:  "expr-" + mm.Clause,
			Witness: text,
			Detail:  fmt.Sprintf("expression %s (meaning %s) must give %s; %s", text, yc.ExprString(e), want, mm.Detail),
			Choices: c.Choices(), Part: partName,
			Extra: map[string]any{"scripts": srcs, "args": mm.Args, "trace": mm.Trace, "go_test": goTestFor(srcs, "abc", mm.Args, mm.Detail)},
		})
	} else if ctx.WantSample() && e.K == yc.EBin && e.L.K == yc.EBin {
		ctx.Sample(map[string]any{"part": partName, "expression": yc.RenderExpr(e, lay), "meaning": yc.ExprString(e)})
	}
}

func nan() *yc.Expr  { return yc.EBinary("/", yc.ENumber(0), yc.ENumber(0)) }
func pinf() *yc.Expr { return yc.EBinary("/", yc.ENumber(1), yc.ENumber(0)) }
func ninf() *yc.Expr { return yc.EBinary("/", yc.ENumber(-1), yc.ENumber(0)) }

var g1Operands = []func() *yc.Expr{
	func() *yc.Expr { return yc.ENumber(0) }, func() *yc.Expr { return yc.ENumber(1) }, func() *yc.Expr { return yc.ENumber(2) },
	func() *yc.Expr { return yc.ENumber(-3) }, func() *yc.Expr { return yc.ENumber(0.5) },
	nan, pinf, ninf,
	func() *yc.Expr { return yc.EBoolean(true) }, func() *yc.Expr { return yc.EBoolean(false) },
	func() *yc.Expr { return yc.EString("") }, func() *yc.Expr { return yc.EString("a") }, func() *yc.Expr { return yc.EString("b") },
	func() *yc.Expr { return yc.EVariable("n") }, func() *yc.Expr { return yc.EVariable("b") }, func() *yc.Expr { return yc.EVariable("s") },
	func() *yc.Expr { return yc.EVariable("unknown") },
}

var g2OperandsQuick = []func() *yc.Expr{
	func() *yc.Expr { return yc.ENumber(2) }, func() *yc.Expr { return yc.ENumber(3) }, func() *yc.Expr { return yc.ENumber(7) },
	func() *yc.Expr { return yc.EBoolean(true) }, func() *yc.Expr { return yc.EBoolean(false) },
	func() *yc.Expr { return yc.EString("a") }, func() *yc.Expr { return yc.EVariable("n") },
}
var g2OperandsSmall = []func() *yc.Expr{
	func() *yc.Expr { return yc.ENumber(2) }, func() *yc.Expr { return yc.ENumber(3) },
	func() *yc.Expr { return yc.EBoolean(true) }, func() *yc.Expr { return yc.EString("a") },
}

// layouts to print an expression with
func exprLayouts() []*yc.Layout {
	var out []*yc.Layout
	for _, pol := range []yc.ParenPolicy{yc.ParenMinimal, yc.ParenFull, yc.ParenRedundant} {
		for alt := 0; alt < 3; alt++ {
			sp := map[string]int{}
			for op, list := range yc.Spellings {
				if alt < len(list) {
					sp[op] = alt
				} else {
					sp[op] = len(list) - 1
				}
			}
			out = append(out, &yc.Layout{Paren: pol, Spell: sp})
		}
	}
	return out
}

func runC02(ctx *report.Ctx) {
	ops := yc.BinaryOps
	lays := exprLayouts()

	// G1: typing
	part(ctx, "G1-binary", -1, func(c *explore.Chooser) {
		op := ops[c.Choose(len(ops), "op")]
		l := g1Operands[c.Choose(len(g1Operands), "left")]()
		r := g1Operands[c.Choose(len(g1Operands), "right")]()
		if !c.Mine() {
			return
		}
		exprCase(ctx, c, "G1-binary", yc.EBinary(op, l, r), nil)
	})
	part(ctx, "G1-unary", -1, func(c *explore.Chooser) {
		neg := c.Choose(2, "unary") == 0
		depth := 1 + c.Choose(2, "times")
		e := g1Operands[c.Choose(len(g1Operands), "operand")]()
		for i := 0; i < depth; i++ {
			if neg {
				e = yc.ENegate(e)
			} else {
				e = yc.ENotOf(e)
			}
		}
		lay := lays[c.Choose(len(lays), "layout")]
		if !c.Mine() {
			return
		}
		exprCase(ctx, c, "G1-unary", e, lay)
	})

	// G1-again: the same expression statement evaluated three times on one runner (a node re-entered through a
	// jump): the value of an expression does not depend on earlier evaluations of it
	literalOperands := g1Operands[:13]
	part(ctx, "G1-again", -1, func(c *explore.Chooser) {
		var e *yc.Expr
		if c.Choose(2, "arity") == 0 {
			op := ops[c.Choose(len(ops), "op")]
			e = yc.EBinary(op, literalOperands[c.Choose(len(literalOperands), "left")](), literalOperands[c.Choose(len(literalOperands), "right")]())
		} else {
			in := literalOperands[c.Choose(len(literalOperands), "operand")]()
			// (the conversion built-ins are modelled on operands of their own type only)
			num, boo := in, in
			if in.K == yc.EStr || in.K == yc.EBool {
				num = yc.ENumber(5)
			}
			if in.K != yc.EBool {
				boo = yc.EBoolean(true)
			}
			switch c.Choose(7, "unary") {
			case 4: // a conversion built-in that hands back its argument when it already has the type, negated
				e = yc.ENegate(yc.ECallOf("number", num))
			case 5:
				e = yc.ENotOf(yc.ECallOf("bool", boo))
			case 6:
				e = yc.EBinary("+", yc.ENumber(10), yc.EBinary("*", yc.ENegate(yc.ECallOf("number", num)), yc.ENumber(2)))
			case 0:
				e = yc.ENegate(in)
			case 1:
				e = yc.ENotOf(in)
			case 2:
				e = yc.EBinary("+", yc.ENumber(3), yc.ENegate(in))
			case 3:
				e = yc.ECallOf("k", yc.ENegate(in), in)
			}
		}
		if !c.Mine() {
			return
		}
		p := &yc.Program{Nodes: []*yc.Node{{Title: "A", Body: []*yc.Stmt{yc.Call("cap", e), yc.Line("again"), yc.Jump("A")}}}}
		srcs := yc.Render(p, nil)
		ctx.Current("G1-again: " + srcs[0])
		mm, st := yc.Walk(p, srcs, exprHost, yc.WalkOpts{MaxSteps: 6, MaxJumps: 2, CompareLog: true, CompareStore: true, StrictErrors: true, NewStorer: func() variable.Storer { return newBoxStorer() }})
		ctx.AddEvals(1, 1)
		ctx.AddStates(1)
		ctx.AddTransitions(st.Steps)
		ctx.AddTraces(1)
		if mm != nil {
			ctx.Violation(report.Violation{Clause: "expr-again-" + mm.Clause, Witness: yc.RenderExpr(e, nil) + " evaluated repeatedly", Detail: fmt.Sprintf("%s; observed trace %v", mm.Detail, mm.Trace),
				Choices: c.Choices(), Part: "G1-again", Extra: map[string]any{"scripts": srcs, "go_test": goTestFor(srcs, "abc", mm.Args, mm.Detail)}})
		}
	})

	// G2: grouping. Trees are built by the chooser: shape, operators, operands.
	var tree func(c *explore.Chooser, nops int, operands []func() *yc.Expr, unary bool) *yc.Expr
	tree = func(c *explore.Chooser, nops int, operands []func() *yc.Expr, unary bool) *yc.Expr {
		if nops == 0 {
			return operands[c.Choose(len(operands), "operand")]()
		}
		nk := len(ops)
		if unary {
			nk += 2
		}
		k := c.Choose(nk, "op")
		if k >= len(ops) {
			in := tree(c, nops-1, operands, unary)
			if k == len(ops) {
				return yc.ENegate(in)
			}
			return yc.ENotOf(in)
		}
		nl := c.Choose(nops, "left-size") // operators in the left subtree
		l := tree(c, nl, operands, unary)
		r := tree(c, nops-1-nl, operands, unary)
		return yc.EBinary(ops[k], l, r)
	}
	part(ctx, "G2-two-ops", -1, func(c *explore.Chooser) {
		e := tree(c, 2, g2OperandsQuick, true)
		lay := lays[c.Choose(len(lays), "layout")]
		if !c.Mine() {
			return
		}
		exprCase(ctx, c, "G2-two-ops", e, lay)
	})
	// G2-again: every tree of two operators over operands that include variables, evaluated three times by one
	// runner (a node re-entered through a jump) while the variables change between the evaluations: the value of
	// an expression is that of its operands now, whatever an earlier evaluation of the same text gave
	againOperands := []func() *yc.Expr{
		func() *yc.Expr { return yc.ENumber(2) }, func() *yc.Expr { return yc.EVariable("n") }, func() *yc.Expr { return yc.EVariable("b") },
		func() *yc.Expr { return yc.EString("a") }, func() *yc.Expr { return yc.EVariable("s") },
	}
	part(ctx, "G2-again", -1, func(c *explore.Chooser) {
		nops := 1 + c.Choose(2, "nops")
		e := tree(c, nops, againOperands, true)
		if !c.Mine() {
			return
		}
		p := &yc.Program{Nodes: []*yc.Node{{Title: "A", Body: []*yc.Stmt{yc.Call("cap", e),
			yc.Set("n", "=", yc.EBinary("+", yc.EVariable("n"), yc.ENumber(1))), yc.Set("b", "=", yc.ENotOf(yc.EVariable("b"))), yc.Set("s", "=", yc.EBinary("+", yc.EVariable("s"), yc.EString("x"))),
			yc.Line("again"), yc.Jump("A")}}}}
		srcs := yc.Render(p, nil)
		ctx.Current("G2-again: " + srcs[0])
		mm, st := yc.Walk(p, srcs, exprHost, yc.WalkOpts{MaxSteps: 6, MaxJumps: 2, CompareLog: true, CompareStore: true, StrictErrors: true, NewStorer: func() variable.Storer { return newBoxStorer() }})
		ctx.AddEvals(1, 1)
		ctx.AddStates(1)
		ctx.AddTransitions(st.Steps)
		ctx.AddTraces(1)
		if mm != nil {
			ctx.Violation(report.Violation{Clause: "expr-again-" + mm.Clause, Witness: yc.RenderExpr(e, nil) + " evaluated repeatedly while its variables change", Detail: fmt.Sprintf("%s; observed trace %v", mm.Detail, mm.Trace),
				Choices: c.Choices(), Part: "G2-again", Extra: map[string]any{"scripts": srcs, "go_test": goTestFor(srcs, "abc", mm.Args, mm.Detail)}})
		}
	})
	if ctx.Quick() {
		// chains of three operators without parentheses (the precedence/associativity core)
		part(ctx, "G2-chains3", -1, func(c *explore.Chooser) {
			o1, o2, o3 := ops[c.Choose(len(ops), "op1")], ops[c.Choose(len(ops), "op2")], ops[c.Choose(len(ops), "op3")]
			a := g2OperandsSmall[c.Choose(len(g2OperandsSmall), "a")]()
			b := g2OperandsSmall[c.Choose(len(g2OperandsSmall), "b")]()
			d := g2OperandsSmall[c.Choose(len(g2OperandsSmall), "c")]()
			e4 := g2OperandsSmall[c.Choose(len(g2OperandsSmall), "d")]()
			if !c.Mine() {
				return
			}
			// the flat text "a o1 b o2 c o3 d" is obtained by rendering the tree that the
			// property's table prescribes for it with minimal parentheses
			exprCase(ctx, c, "G2-chains3", chainTree([]string{o1, o2, o3}, []*yc.Expr{a, b, d, e4}), nil)
		})
	} else {
		part(ctx, "G2-three-ops", -1, func(c *explore.Chooser) {
			e := tree(c, 3, g2OperandsSmall, true)
			pol := []yc.ParenPolicy{yc.ParenMinimal, yc.ParenFull}[c.Choose(2, "paren")]
			if !c.Mine() {
				return
			}
			exprCase(ctx, c, "G2-three-ops", e, &yc.Layout{Paren: pol})
		})
	}

	// G3: evaluation order and short-circuit with probes
	probes := []string{"pn1", "pn2", "pt", "pf", "ps", "pfail", "pnone"}
	part(ctx, "G3-operators", -1, func(c *explore.Chooser) {
		op := ops[c.Choose(len(ops), "op")]
		l := yc.ECallOf(probes[c.Choose(len(probes), "left")])
		r := yc.ECallOf(probes[c.Choose(len(probes), "right")])
		var e *yc.Expr
		switch c.Choose(3, "shape") {
		case 0:
			e = yc.EBinary(op, l, r)
		case 1: // nested on the right: l op (r op2 pt)
			e = yc.EBinary(op, l, yc.EBinary(ops[c.Choose(len(ops), "op2")], r, yc.ECallOf("pt")))
		case 2: // nested on the left
			e = yc.EBinary(op, yc.EBinary(ops[c.Choose(len(ops), "op2")], l, yc.ECallOf("pn2")), r)
		}
		if !c.Mine() {
			return
		}
		exprCase(ctx, c, "G3-operators", e, nil)
	})
	argAtoms := []func() *yc.Expr{
		func() *yc.Expr { return yc.ENumber(1) }, func() *yc.Expr { return yc.ENumber(7) }, func() *yc.Expr { return yc.ECallOf("pn1") },
		func() *yc.Expr { return yc.EBoolean(true) }, func() *yc.Expr { return yc.EString("ab") }, func() *yc.Expr { return yc.ECallOf("pfail") },
		func() *yc.Expr { return yc.EVariable("n") },
	}
	// LIT: spellings of number literals. The grammar admits DIGIT+ ('.' DIGIT+)?: leading and trailing zeros,
	// long digit strings; the value is the decimal meaning of the text.
	{
		var ints []string
		var rec func(p string)
		digs := []string{"0", "1", "7", "8", "9"}
		maxLen := report.Pick(ctx, 4, 5)
		rec = func(p string) {
			if p != "" {
				ints = append(ints, p)
			}
			if len(p) < maxLen {
				for _, d := range digs {
					rec(p + d)
				}
			}
		}
		rec("")
		ints = append(ints, "0000010", "2147483648", "4294967296", "9007199254740993", "9223372036854775807", "9223372036854775808", "18446744073709551615", "18446744073709551616",
			"123456789012345678901234567890", "0000000000000000000000017")
		fracs := []string{"", ".0", ".5", ".50", ".05", ".125", ".14", ".30000000000000004", ".3333333333333333333333", ".000000000000000000001"}
		ctx.Bound("LIT_integer_spellings", len(ints))
		part(ctx, "LIT", -1, func(c *explore.Chooser) {
			ip := ints[c.Choose(len(ints), "int")]
			if !c.Mine() {
				return
			}
			lit := yc.ENumberLit(ip + fracs[c.Choose(len(fracs), "fraction")])
			var e *yc.Expr
			switch c.Choose(3, "shape") {
			case 0:
				e = lit
			case 1:
				e = yc.EBinary("+", yc.ENumber(1), yc.EBinary("*", lit, yc.ENumber(2)))
			case 2:
				e = yc.EBinary("==", lit, yc.ENumber(lit.N))
			}
			exprCase(ctx, c, "LIT", e, nil)
		})
	}

	// STR: contents of string literals. Every string of <=3 symbols over {a, space, é, 日, {, }, //, #, <<, >>, [, ], ', -, ->, ===}
	// as a literal: alone, concatenated and compared - the value is the characters between the quotes
	{
		syms := []string{"a", " ", "é", "日", "{", "}", "//", "#", "<<", ">>", "[", "]", "'", "-", "->", "==="}
		part(ctx, "STR", -1, func(c *explore.Chooser) {
			n := c.Choose(4, "len")
			var str string
			for i := 0; i < n; i++ {
				str += syms[c.Choose(len(syms), "symbol")]
				if i == 0 && !c.Mine() {
					return
				}
			}
			if n == 0 && !c.Mine() {
				return
			}
			var e *yc.Expr
			switch c.Choose(3, "shape") {
			case 0:
				e = yc.EString(str)
			case 1:
				e = yc.EBinary("+", yc.EString(str), yc.EBinary("+", yc.EString("|"), yc.EString(str)))
			case 2:
				e = yc.EBinary("==", yc.EString(str), yc.EBinary("+", yc.EString(""), yc.EString(str)))
			}
			exprCase(ctx, c, "STR", e, nil)
		})
	}

	// REFUSED-CALL: function arguments are evaluated and handed over exactly once per call, whatever the call before was
	// given: a call with matching arguments, a call the bridge refuses (wrong type at every position, wrong count), then a
	// matching call again - on converted host functions (fixed, variadic, mixed) and a two-parameter built-in
	type rcall struct {
		args string
		want *yc.Value // nil: the call must be an error
	}
	num := func(f float64) *yc.Value { v := yc.Num(f); return &v }
	str := func(t string) *yc.Value { v := yc.Str(t); return &v }
	rfuncs := []struct {
		name  string
		calls []rcall
	}{
		{"conv2", []rcall{{`1, "x"`, str("1|x")}, {`7, ""`, str("7|")}, {`1, 2`, nil}, {`"a", "b"`, nil}, {`1`, nil}, {`1, "x", "y"`, nil}, {`1, true`, nil}}},
		{"sumv", []rcall{{``, num(0)}, {`2, 3`, num(5)}, {`4`, num(4)}, {`1, "two"`, nil}, {`"a"`, nil}, {`1, 2, true`, nil}}},
		{"mix", []rcall{{`1`, str("1")}, {`2, "a", "b"`, str("2ab")}, {`1, 2`, nil}, {`1, "a", 3`, nil}, {`"x"`, nil}, {``, nil}}},
		{"round_places", []rcall{{`1.26, 1`, num(1.3)}, {`7.123, 2`, num(7.12)}, {`1.26, "s"`, nil}, {`1.26`, nil}, {`"a", 1`, nil}, {`1.26, 1, 1`, nil}}},
	}
	part(ctx, "REFUSED-CALL", -1, func(c *explore.Chooser) {
		f := rfuncs[c.Choose(len(rfuncs), "function")]
		var seq []rcall
		for i := 0; i < 3; i++ {
			seq = append(seq, f.calls[c.Choose(len(f.calls), "call")])
			if i == 0 && !c.Mine() {
				return
			}
		}
		var b strings.Builder
		b.WriteString("title: A\n---\n")
		var shown []string
		for _, cl := range seq {
			b.WriteString("<<call cap(" + f.name + "(" + cl.args + "))>>\nm\n")
			shown = append(shown, f.name+"("+cl.args+")")
		}
		b.WriteString("===\n")
		w := "calls in a row on one runner: " + strings.Join(shown, ", ")
		ctx.Current("REFUSED-CALL: " + w)
		r, err, pan := yc.NewReal([]string{b.String()}, "abc", nil)
		if err != nil || pan != "" {
			ctx.HarnessError("C02: harness script does not load: %v %s\n%s", err, pan, b.String())
			return
		}
		var got []yc.Value
		invoked := 0
		r.DR.AddFunction("cap", func(args []*variable.Value) (*variable.Value, error) { got = yc.RealArgs(args); return nil, nil })
		r.DR.ConvertAndAddFunction("conv2", func(a int, t string) string { invoked++; return fmt.Sprint(a, "|", t) })
		r.DR.ConvertAndAddFunction("sumv", func(xs ...int) int {
			invoked++
			n := 0
			for _, x := range xs {
				n += x
			}
			return n
		})
		r.DR.ConvertAndAddFunction("mix", func(a int, rest ...string) string { invoked++; return fmt.Sprint(a) + strings.Join(rest, "") })
		ctx.AddEvals(1, 1)
		ctx.AddStates(1)
		ctx.AddTraces(1)
		fail := func(clause, detail string) {
			ctx.Violation(report.Violation{Clause: clause, Witness: w, Detail: detail, Choices: c.Choices(), Part: "REFUSED-CALL", Extra: map[string]any{"scripts": []string{b.String()}}})
		}
		for k, cl := range seq {
			got, invoked = nil, 0
			ro := r.Next(0)
			ctx.AddTransitions(1)
			if ro.Panic != "" {
				fail("expr-call-panic", fmt.Sprintf("call %d (%s) panicked: %s", k+1, shown[k], ro.Panic))
				return
			}
			isErr := ro.K == yc.OError
			if isErr {
				ro = r.Next(0)
				ctx.AddTransitions(1)
			}
			if ro.K != yc.OLine || ro.Text != "m" {
				fail("expr-call-sequence", fmt.Sprintf("after call %d (%s) the dialogue does not go on with the next line: %s", k+1, shown[k], ro.String()))
				return
			}
			ctx.Outcome(fmt.Sprintf("%s err=%v %v", shown[k], isErr, got))
			switch {
			case cl.want == nil && (!isErr || got != nil || invoked != 0):
				fail("expr-error-class", fmt.Sprintf("call %d: %s does not match the parameters and must be an error without invoking anything; error %v, value %v, invocations %d", k+1, shown[k], isErr, got, invoked))
				return
			case cl.want != nil && (isErr || len(got) != 1 || got[0].K != cl.want.K || (cl.want.K == yc.VStr && got[0].S != cl.want.S) || (cl.want.K == yc.VNum && math.Abs(got[0].N-cl.want.N) > 1e-9)):
				fail("expr-call-value", fmt.Sprintf("call %d: %s must give %s; error %v, value %v", k+1, shown[k], cl.want, isErr, got))
				return
			case cl.want != nil && f.name != "round_places" && invoked != 1:
				fail("expr-handler-log", fmt.Sprintf("call %d: %s invoked the Go function %d times", k+1, shown[k], invoked))
				return
			}
		}
	})

	part(ctx, "G3-calls", -1, func(c *explore.Chooser) {
		atom := func() *yc.Expr { return argAtoms[c.Choose(len(argAtoms), "atom")]() }
		var e *yc.Expr
		switch c.Choose(6, "shape") {
		case 0:
			e = yc.ECallOf("k", atom(), atom())
		case 1:
			e = yc.ECallOf("k", atom(), yc.ECallOf("k", atom(), atom()))
		case 2:
			e = yc.ECallOf("k", yc.ECallOf("k", atom(), atom()), atom())
		case 3:
			e = yc.ECallOf("k", atom(), atom(), yc.ECallOf("k", atom()))
		case 4:
			e = yc.ECallOf("k", atom(), yc.ECallOf("k", atom(), yc.ECallOf("k", atom(), atom())))
		case 5:
			e = yc.EBinary("+", yc.ECallOf("k", atom(), atom()), yc.ECallOf("k", atom(), yc.ECallOf("k", atom())))
		}
		if !c.Mine() {
			return
		}
		exprCase(ctx, c, "G3-calls", e, nil)
	})
}

// chainTree builds the tree that the property's precedence table (left-associative levels)
// prescribes for the flat text a0 op0 a1 op1 a2 ...: precedence climbing.
func chainTree(ops []string, atoms []*yc.Expr) *yc.Expr {
	pos := 0
	var climb func(minPrec int) *yc.Expr
	climb = func(minPrec int) *yc.Expr {
		lhs := atoms[pos]
		for pos < len(ops) && yc.Precedence(ops[pos]) >= minPrec {
			op := ops[pos]
			pos++
			rhs := climb(yc.Precedence(op) + 1)
			lhs = yc.EBinary(op, lhs, rhs)
		}
		return lhs
	}
	return climb(1)
}
