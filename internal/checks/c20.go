package checks

import (
	"fmt"
	"strings"
	"time"

	"github.com/antlr4-go/antlr/v4"

	"github.com/remieven/ysgo/internal/container"
	"github.com/remieven/ysgo/internal/parser"
	"github.com/remieven/ysgo/verifx/internal/dump"
	"github.com/remieven/ysgo/verifx/internal/explore"
	"github.com/remieven/ysgo/verifx/internal/report"
)

func init() {
	register(&Check{
		Meta: report.Meta{
			Property: "C20",
			Rule: "LONG: queue and stack driven by every periodic pattern (head rotated by r<8, rounds of a<=5 insertions and b<a removals) up to 5000 (quick) / 40000 (thorough) elements and emptied again, twice, every removal and every size compared with a slice; a removal from an empty container is refused and leaves it empty; " +
				"Q: explicit-state breadth-first search over container.Queue[int] with operations {Enqueue(next sequence number), Dequeue, Peek, Size}, states keyed by a reflective dump with payloads renumbered relative to the oldest live element (sound by parametricity of Queue[T]), " +
				"every reachable configuration holding <= 136 (quick) / 300 (thorough) elements expanded (capacities 8..256 / 512: every growth with every position of the head, wrapped buffers included); K: the same for container.Stack[int] with {Push, PushAll(2 elements from a caller-owned slice that is overwritten and appended to right after the call), Pop, Peek, Size, Clear} up to 140 / 600 elements, to closure, keys include the capacity of the backing array; every transition compared with a slice model (returned values, sizes, panics only on empty) and followed by draining the container against the model (its whole observable state); " +
				"T: the token stream of the indentation-aware lexer (parser.NewYarnSpinnerLexer drained through CommonTokenStream.Fill) on every byte string of length <=4 (quick) / 5 (thorough) over a 20-symbol alphabet reaching every lexer mode, raw and inside a node body, and on every line structure of <=4 (quick) / 5 (thorough) lines with indents from {0,1,2,4,8 spaces, tab, 2 tabs} x line kinds {text, option, blank, whitespace-only, comment, command, ===}; " +
				"oracle: running INDENT-DEDENT count never negative, zero at EOF, exactly one EOF and it is last; a case is one container state x operation, or one lexer input; non-trivial = container holds >= 1 element / input has an indented line",
			StatesMean:  "distinct container states by reflective dump (Q, K) plus distinct lexer inputs (T); transitions = container operations compared with the model / token streams checked",
			Assumptions: []string{"inputs whose indentation mixes tabs and spaces in one line make the lexer panic before a stream exists: that is C05's subject, such inputs are counted and skipped here", "containers are explored for int payloads (parametric in T)"},
		},
		QuickBudget: 180 * time.Second, ThoroughBudget: 12 * time.Minute, CrashIsViolation: true,
		Run: runC20,
	})
}

type qop int

const (
	qEnq qop = iota
	qDeq
	qPeek
	qSize
)

// applyQueue replays a history on a fresh queue and a slice model; returns the queue, the model,
// the next sequence number and a mismatch description.
func applyQueue(hist []qop) (q *container.Queue[int], model []int, seq int, mismatch string) {
	q = &container.Queue[int]{}
	for i, op := range hist {
		var got int
		var pan any
		switch op {
		case qEnq:
			pan = guard(func() { q.Enqueue(seq) })
			model = append(model, seq)
			seq++
			if pan != nil {
				return q, model, seq, fmt.Sprintf("operation %d: Enqueue panicked: %v", i, pan)
			}
		case qDeq, qPeek:
			name := "Dequeue"
			if op == qPeek {
				name = "Peek"
				pan = guard(func() { got = q.Peek() })
			} else {
				pan = guard(func() { got = q.Dequeue() })
			}
			if len(model) == 0 {
				if pan == nil {
					return q, model, seq, fmt.Sprintf("operation %d: %s on an empty queue returned %d instead of panicking", i, name, got)
				}
				// a removal from the empty queue is refused (documented panic): the queue is still the empty queue
				continue
			}
			if pan != nil {
				return q, model, seq, fmt.Sprintf("operation %d: %s panicked on a queue holding %v: %v", i, name, model, pan)
			}
			if got != model[0] {
				return q, model, seq, fmt.Sprintf("operation %d: %s returned %d, first-in-first-out order gives %d (queue %v)", i, name, got, model[0], model)
			}
			if op == qDeq {
				model = model[1:]
			}
		case qSize:
			pan = guard(func() { got = q.Size() })
			if pan != nil || got != len(model) {
				return q, model, seq, fmt.Sprintf("operation %d: Size returned %d (panic %v), the queue holds %d elements", i, got, pan, len(model))
			}
		}
	}
	return q, model, seq, ""
}

// drainQueue empties q and compares what comes out with the model (the complete observable state of a queue).
func drainQueue(q *container.Queue[int], model []int) string {
	var mm string
	if p := guard(func() {
		if n := q.Size(); n != len(model) {
			mm = fmt.Sprintf("Size is %d, the queue holds %d elements (%v)", n, len(model), model)
			return
		}
		for i, want := range model {
			if got := q.Dequeue(); got != want {
				mm = fmt.Sprintf("draining the queue: element %d is %d, first-in-first-out order gives %d (queue %v)", i, got, want, model)
				return
			}
		}
		if n := q.Size(); n != 0 {
			mm = fmt.Sprintf("Size is %d after every element was dequeued", n)
		}
	}); p != nil {
		return fmt.Sprintf("draining the queue %v panicked: %v", model, p)
	}
	return mm
}

// drainStack: the same for a stack.
func drainStack(s *container.Stack[int], model []int) string {
	var mm string
	if p := guard(func() {
		if n := s.Size(); n != len(model) {
			mm = fmt.Sprintf("Size is %d, the stack holds %d elements (%v)", n, len(model), model)
			return
		}
		for i := len(model) - 1; i >= 0; i-- {
			if got := s.Pop(); got != model[i] {
				mm = fmt.Sprintf("emptying the stack: got %d, last-in-first-out order gives %d (stack %v)", got, model[i], model)
				return
			}
		}
		if n := s.Size(); n != 0 {
			mm = fmt.Sprintf("Size is %d after every element was popped", n)
		}
	}); p != nil {
		return fmt.Sprintf("emptying the stack %v panicked: %v", model, p)
	}
	return mm
}

func opsString(hist []qop) string {
	var b strings.Builder
	for _, o := range hist {
		b.WriteByte("EDPS"[o])
	}
	return b.String()
}

func runQueueBFS(ctx *report.Ctx, maxLive int) {
	type node struct{ hist []qop }
	frontier := []node{{nil}}
	seen := map[string]bool{}
	states, transitions := int64(0), int64(0)
	maxDepth := 0
	for len(frontier) > 0 {
		var next []node
		for _, nd := range frontier {
			if ctx.Expired() {
				ctx.Capped("deadline in Q")
				return
			}
			ctx.Progress.Add(1)
			q, model, seq, mm := applyQueue(nd.hist)
			if mm != "" {
				continue // reported when the transition was taken
			}
			oldest := seq - len(model)
			key := dump.StringElems(q, func(v int64) string {
				if int(v) >= oldest && len(model) > 0 {
					return fmt.Sprint(int(v) - oldest)
				}
				return "d"
			})
			if seen[key] {
				continue
			}
			seen[key] = true
			states++
			if len(nd.hist) > maxDepth {
				maxDepth = len(nd.hist)
			}
			for _, op := range []qop{qEnq, qDeq, qPeek, qSize} {
				if op == qEnq && len(model) >= maxLive {
					continue
				}
				h := append(append([]qop{}, nd.hist...), op)
				q2, model2, _, mm := applyQueue(h)
				if mm == "" {
					mm = drainQueue(q2, model2) // the whole observable state after the transition
				}
				transitions++
				ctx.AddEvals(1, b2i(len(model) > 0))
				if mm != "" && mm != "END" {
					ctx.Violation(report.Violation{Clause: "queue-fifo", Witness: "queue ops " + opsString(h) + " (E enqueue, D dequeue, P peek, S size)", Detail: mm, Part: "Q",
						Extra: map[string]any{"ops": opsString(h)}})
					continue
				}
				if mm == "" && (op == qEnq || op == qDeq) {
					next = append(next, node{h})
				}
			}
		}
		frontier = next
	}
	ctx.AddStates(states)
	ctx.AddTransitions(transitions)
	ctx.AddTraces(transitions)
	ctx.Count("queue_states", states)
	ctx.Count("queue_max_history", int64(maxDepth))
	ctx.Sample(map[string]any{"part": "Q", "example_history": "EEEEEEEEDDDEEEEEEEEEEEE (fill 8, dequeue 3, enqueue past the first growth with a wrapped buffer)", "states": states})
}

// stack
func applyStack(hist []int) (s *container.Stack[int], model []int, seq int, mismatch string) {
	s = &container.Stack[int]{}
	for i, op := range hist {
		var got int
		var pan any
		switch op {
		case 0: // Push
			pan = guard(func() { s.Push(seq) })
			model = append(model, seq)
			seq++
		case 1: // PushAll(2) from a slice the caller owns, has spare capacity in, and reuses at once
			buf := make([]int, 2, 8)
			buf[0], buf[1] = seq, seq+1
			pan = guard(func() { s.PushAll(buf...) })
			buf[0], buf[1] = -101, -102
			buf = append(buf, -103, -104)
			_ = buf
			model = append(model, seq, seq+1)
			seq += 2
		case 2, 3: // Pop, Peek
			name := []string{"Pop", "Peek"}[op-2]
			if op == 2 {
				pan = guard(func() { got = s.Pop() })
			} else {
				pan = guard(func() { got = s.Peek() })
			}
			if len(model) == 0 {
				if pan == nil {
					return s, model, seq, fmt.Sprintf("operation %d: %s on an empty stack returned %d instead of panicking", i, name, got)
				}
				pan = nil // a removal from the empty stack is refused (documented panic): the stack is still the empty stack
				continue
			}
			if pan != nil {
				return s, model, seq, fmt.Sprintf("operation %d: %s panicked on a stack holding %v: %v", i, name, model, pan)
			}
			if got != model[len(model)-1] {
				return s, model, seq, fmt.Sprintf("operation %d: %s returned %d, last-in-first-out order gives %d (stack %v)", i, name, got, model[len(model)-1], model)
			}
			if op == 2 {
				model = model[:len(model)-1]
			}
			pan = nil
		case 4: // Size
			pan = guard(func() { got = s.Size() })
			if pan == nil && got != len(model) {
				return s, model, seq, fmt.Sprintf("operation %d: Size returned %d, the stack holds %d elements", i, got, len(model))
			}
		case 5: // Clear
			pan = guard(func() { s.Clear() })
			model = model[:0]
		}
		if pan != nil {
			return s, model, seq, fmt.Sprintf("operation %d panicked: %v", i, pan)
		}
	}
	return s, model, seq, ""
}

func runStackBFS(ctx *report.Ctx, maxLive, maxDepth int) {
	type node struct{ hist []int }
	frontier := []node{{nil}}
	seen := map[string]bool{}
	states, transitions := int64(0), int64(0)
	for depth := 0; len(frontier) > 0 && depth <= maxDepth; depth++ {
		var next []node
		for _, nd := range frontier {
			if ctx.Expired() {
				ctx.Capped("deadline in K")
				return
			}
			ctx.Progress.Add(1)
			s, model, _, mm := applyStack(nd.hist)
			if mm != "" {
				continue
			}
			// key: contents by rank (parametricity) plus the dump of what lies beyond is invisible; keep the history length parity out
			rank := map[int]int{}
			for i, v := range model {
				rank[v] = i
			}
			// only the methods of the stack are used here; the representation is seen through the reflective dump
			// alone (elements renumbered by rank: live payloads of a stack are not contiguous)
			key := dump.StringElems(s, func(v int64) string {
				if r, ok := rank[int(v)]; ok {
					return fmt.Sprint(r)
				}
				return "d"
			})
			if seen[key] {
				continue
			}
			seen[key] = true
			states++
			for op := 0; op < 6; op++ {
				if (op == 0 && len(model)+1 > maxLive) || (op == 1 && len(model)+2 > maxLive) {
					continue
				}
				h := append(append([]int{}, nd.hist...), op)
				s2, model2, _, mm := applyStack(h)
				if mm == "" {
					mm = drainStack(s2, model2) // the whole observable state after the transition
				}
				transitions++
				ctx.AddEvals(1, b2i(len(model) > 0))
				if mm != "" && mm != "END" {
					ctx.Violation(report.Violation{Clause: "stack-lifo", Witness: fmt.Sprintf("stack ops %v (0 push, 1 pushall(2), 2 pop, 3 peek, 4 size, 5 clear)", h), Detail: mm, Part: "K"})
					continue
				}
				if mm == "" && op != 3 && op != 4 {
					next = append(next, node{h})
				}
			}
		}
		frontier = next
	}
	ctx.AddStates(states)
	ctx.AddTransitions(transitions)
	ctx.AddTraces(transitions)
	ctx.Count("stack_states", states)
}

// tokens drains the lexer; mixed reports the tabs-and-spaces panic of the lexer.
func lexTokens(input string) (types []int, mixed bool, pan any) {
	pan = guard(func() {
		lexer := parser.NewYarnSpinnerLexer(antlr.NewInputStream(input))
		lexer.RemoveErrorListeners()
		stream := antlr.NewCommonTokenStream(lexer, antlr.LexerDefaultTokenChannel)
		stream.Fill()
		for _, t := range stream.GetAllTokens() {
			types = append(types, t.GetTokenType())
		}
	})
	if pan != nil && strings.Contains(fmt.Sprint(pan), "tabs and spaces") {
		return nil, true, nil
	}
	return types, false, pan
}

func checkBalance(types []int) string {
	depth, eofs := 0, 0
	for i, t := range types {
		switch t {
		case parser.YarnSpinnerLexerINDENT:
			depth++
		case parser.YarnSpinnerLexerDEDENT:
			depth--
			if depth < 0 {
				return fmt.Sprintf("token %d is a DEDENT without a matching INDENT", i)
			}
		case antlr.TokenEOF:
			eofs++
			if i != len(types)-1 {
				return fmt.Sprintf("token %d is EOF but %d tokens follow", i, len(types)-1-i)
			}
		}
	}
	if eofs != 1 {
		return fmt.Sprintf("%d EOF tokens", eofs)
	}
	if depth != 0 {
		return fmt.Sprintf("%d INDENT without DEDENT at the end of the stream", depth)
	}
	return ""
}

func lexCase(ctx *report.Ctx, c *explore.Chooser, partName, input string, nontrivial bool) {
	ctx.Current(partName + ": " + fmt.Sprintf("%q", input))
	types, mixed, pan := lexTokens(input)
	if mixed {
		ctx.Skip("indentation mixing tabs and spaces (lexer panics by design: C05)")
		return
	}
	ctx.AddEvals(1, b2i(nontrivial))
	ctx.AddStates(1)
	ctx.AddTransitions(1)
	ctx.AddTraces(1)
	if pan != nil {
		// other panics of the lexer are C05's subject as well, but an empty input is known to be handled by the stream
		ctx.Count("lexer_panics_other", 1)
		ctx.Note("lexer panic (not the mixed-indentation one) on %q: %v", input, pan)
		return
	}
	in, de := 0, 0
	for _, t := range types {
		if t == parser.YarnSpinnerLexerINDENT {
			in++
		} else if t == parser.YarnSpinnerLexerDEDENT {
			de++
		}
	}
	ctx.OutcomeHash(uint64(in)*1000 + uint64(len(types)))
	if d := checkBalance(types); d != "" {
		ctx.Violation(report.Violation{Clause: "token-balance", Witness: fmt.Sprintf("lexer input %q", input), Detail: d + fmt.Sprintf(" (token types %v)", types), Choices: c.Choices(), Part: partName})
	} else if ctx.WantSample() && in >= 2 {
		ctx.Sample(map[string]any{"part": partName, "input": input, "indents": in, "dedents": de, "tokens": len(types)})
	}
}

func runC20(ctx *report.Ctx) {
	// the container searches are small: worker 0 runs the queue, worker 1 the stack; a replay of a
	// container violation re-runs the search (it is deterministic and takes well under a second)
	if (ctx.Replay == nil && ctx.ShardIndex == 0) || (ctx.Replay != nil && ctx.Replay.Part == "Q") {
		runQueueBFS(ctx, report.Pick(ctx, 136, 300))
	}
	if (ctx.Replay == nil && ctx.ShardIndex == 1%ctx.ShardCount) || (ctx.Replay != nil && ctx.Replay.Part == "K") {
		runStackBFS(ctx, report.Pick(ctx, 140, 600), 1<<30)
	}
	// LONG: periodic histories far beyond the depth of the searches: rotate the head by r, then repeat (a insertions, b < a
	// removals) until the container holds `top` elements, every removal and every size compared with the slice model, then
	// empty it; for the stack also a Clear half way followed by the same again
	top := report.Pick(ctx, 5000, 40000)
	ctx.Bound("LONG", fmt.Sprintf("queue and stack filled to %d elements by every pattern (rotation r<8, a<=5 insertions, b<a removals per round)", top))
	part(ctx, "LONG", -1, func(c *explore.Chooser) {
		isStack := c.Choose(2, "container") == 1
		r := c.Choose(8, "rotation")
		a := 1 + c.Choose(5, "insertions-per-round")
		b := c.Choose(a, "removals-per-round")
		if !c.Mine() {
			return
		}
		w := fmt.Sprintf("%s: %d insertions and removals first, then rounds of %d insertions and %d removals up to %d elements, then emptied", []string{"queue", "stack"}[b2i(isStack)], r, a, b, top)
		ctx.Current("LONG: " + w)
		ctx.AddEvals(1, 1)
		ctx.AddStates(1)
		var mm string
		ops := int64(0)
		pan := guard(func() {
			q := &container.Queue[int]{}
			st := &container.Stack[int]{}
			var model []int
			seq := 0
			ins := func() {
				if isStack {
					st.Push(seq)
				} else {
					q.Enqueue(seq)
				}
				model = append(model, seq)
				seq++
				ops++
			}
			rem := func() bool {
				var got, want, size int
				if isStack {
					got, want = st.Pop(), model[len(model)-1]
					model = model[:len(model)-1]
					size = st.Size()
				} else {
					got, want = q.Dequeue(), model[0]
					model = model[1:]
					size = q.Size()
				}
				ops++
				if got != want {
					mm = fmt.Sprintf("after %d operations a removal returned %d, the order of the container gives %d", ops, got, want)
					return false
				}
				if size != len(model) {
					mm = fmt.Sprintf("after %d operations Size is %d, the container holds %d elements", ops, size, len(model))
					return false
				}
				return true
			}
			size := func() int {
				if isStack {
					return st.Size()
				}
				return q.Size()
			}
			for phase := 0; phase < 2 && mm == ""; phase++ {
				for i := 0; i < r; i++ {
					ins()
				}
				for i := 0; i < r; i++ {
					if !rem() {
						return
					}
				}
				for len(model) < top {
					for i := 0; i < a; i++ {
						ins()
						if n := size(); n != len(model) {
							mm = fmt.Sprintf("after %d operations Size is %d, the container holds %d elements", ops, n, len(model))
							return
						}
					}
					for i := 0; i < b; i++ {
						if !rem() {
							return
						}
					}
				}
				if phase == 0 && isStack {
					st.Clear() // then the same again on the cleared stack
					model = model[:0]
					if st.Size() != 0 {
						mm = "Size is not 0 after Clear"
						return
					}
					continue
				}
				for len(model) > 0 {
					if !rem() {
						return
					}
				}
				if !isStack {
					// a second fill of the emptied queue (the buffer is large now, the head somewhere in it)
					continue
				}
			}
		})
		ctx.AddTransitions(ops)
		ctx.AddTraces(1)
		if pan != nil {
			mm = fmt.Sprintf("panic after %d operations: %v", ops, pan)
		}
		if mm != "" {
			ctx.Violation(report.Violation{Clause: map[bool]string{false: "queue-fifo", true: "stack-lifo"}[isStack], Witness: w, Detail: mm, Choices: c.Choices(), Part: "LONG"})
		}
	})

	alphabet := []string{"a", "1", " ", "\n", "\t", "-", ">", "<", "{", "}", "#", "=", ":", "\\", "/", "\"", "$", "(", "\xc3\xa9", "\r"}
	maxLen := report.Pick(ctx, 4, 5)
	part(ctx, "T-bytes", -1, func(c *explore.Chooser) {
		n := c.Choose(maxLen+1, "len")
		var b strings.Builder
		for i := 0; i < n; i++ {
			b.WriteString(alphabet[c.Choose(len(alphabet), "symbol")])
			if i == 1 || (n == 1 && i == 0) {
				if !c.Mine() {
					return
				}
			}
		}
		if n == 0 && !c.Mine() {
			return
		}
		wrap := c.Choose(3, "context")
		s := b.String()
		switch wrap {
		case 1:
			s = "title: a\n---\n" + s + "\n===\n"
		case 2:
			s = "title: a\n---\n-> o\n    " + s
		}
		lexCase(ctx, c, "T-bytes", s, strings.Contains(s, "\n ") || strings.Contains(s, "\n\t"))
	})
	indents := []string{"", " ", "  ", "    ", "        ", "\t", "\t\t"}
	kinds := []string{"text", "-> option", "", "WS", "// comment", "<<set $x = 1>>", "===\ntitle: b\n---"}
	maxLines := report.Pick(ctx, 4, 5)
	part(ctx, "T-lines", -1, func(c *explore.Chooser) {
		n := 1 + c.Choose(maxLines, "nlines")
		var b strings.Builder
		b.WriteString("title: a\n---\n")
		indented := false
		for i := 0; i < n; i++ {
			ind := indents[c.Choose(len(indents), "indent")]
			k := kinds[c.Choose(len(kinds), "kind")]
			if i == 0 {
				if !c.Mine() {
					return
				}
			}
			if ind != "" {
				indented = true
			}
			switch k {
			case "WS":
				b.WriteString(ind + "  \n")
			case "":
				b.WriteString("\n")
			default:
				b.WriteString(ind + k + "\n")
			}
		}
		tail := c.Choose(3, "tail")
		switch tail {
		case 0:
			b.WriteString("===\n")
		case 1:
			b.WriteString("===")
		}
		lexCase(ctx, c, "T-lines", b.String(), indented)
	})
}
