package checks

import (
	"fmt"
	"sort"
	"strconv"
	"strings"
	"time"

	"github.com/remieven/ysgo/markup"
	"github.com/remieven/ysgo/verifx/internal/explore"
	mg "github.com/remieven/ysgo/verifx/internal/markupgen"
	"github.com/remieven/ysgo/verifx/internal/report"
	yc "github.com/remieven/ysgo/verifx/internal/yarncore"
)

func init() {
	register(&Check{
		Meta: report.Meta{
			Property: "C13",
			Rule: "M: every line of <=4 (quick) / 5 (thorough, reduced alphabet at 5) items from: text chunks {a, xy, é, 日本, 😀, space, \"a b\"}, \\[ and \\], markers over names {a, b, é1} (open, close by name, close all, self-closing) with property sets covering integer, decimals (1.05, 2.50, 0.007), booleans in any case, bare word, quoted string with spaces and escaped quote, shorthand [a=v], 2-3 properties, trimwhitespace=false, " +
				"replacement markers select / plural / ordinal / nomarkup (self-closing and closed by name, every ordinal case value, % placeholders, multi-byte replacement text), with nested / overlapping / repeated arrangements by well-formedness-preserving choices; x optional character prefix (ASCII / multi-byte) x optional leading / trailing whitespace (for <=3 items); " +
				"S: every marker structure of <=8 (quick) / 11 (thorough) markers over {open a, open b, close a, close b, close all}, each followed by a character of text (same-name markers open at the same time: first-in-first-out and last-in-first-out pairings both accepted, but removing the markers of the other name must not change the pairing); the <=3-item lines are also shown through the runner and Line.Attributes compared; " +
				"QS: every quoted property value of <=3 symbols over {a, space, é, escaped quote, escaped backslash, ], [, =, /} in four positions; RV: plural and ordinal markers over every value 0..130 and six large ones in three positions; V: every numeric property value i.f over a grid of integer parts (incl. leading zeros, 2^52+1, 2^53+1 in the thorough tier) x every fraction string of <=3 (quick) / 4 (thorough) digits plus long fractions of up to 40 digits, in four syntactic positions, expected value = the decimal meaning of the characters written; runner / runner-options: the short lines shown as dialogue lines and as the 2-3 options of one choice (all options are prepared by one parser and returned together); " +
				"constructive oracle (plain text, per marker name / typed properties / position / length in characters / TextForAttribute); a case is one line; non-trivial = contains at least one marker",
			StatesMean:  "distinct generated lines; transitions = ParseMarkup calls (plus Next calls for the runner part)",
			Assumptions: []string{"constructions without a single meaning under the property are not checked: a self-closing marker between whitespace (one following space may be trimmed), a colon outside the prefix, leading whitespace before a prefix", "attributes of replacement markers themselves, attribute order and SourcePosition are not constrained here", "markers left open at the end of the line are C14/C15 material"},
		},
		QuickBudget: 180 * time.Second, ThoroughBudget: 14 * time.Minute, CrashIsViolation: true,
		Run: runC13,
	})
}

func pInt(name string, i int) mg.Prop {
	return mg.Prop{Name: name, Src: fmt.Sprint(i), Val: mg.PVal{Kind: "int", I: i}}
}
func pFloat(name, src string, f float64) mg.Prop {
	return mg.Prop{Name: name, Src: src, Val: mg.PVal{Kind: "float", F: f}}
}
func pBool(name, src string, b bool) mg.Prop {
	return mg.Prop{Name: name, Src: src, Val: mg.PVal{Kind: "bool", B: b}}
}
func pWord(name, w string) mg.Prop {
	return mg.Prop{Name: name, Src: w, Val: mg.PVal{Kind: "string", S: w}}
}
func pQuoted(name, src, val string) mg.Prop {
	return mg.Prop{Name: name, Src: src, Val: mg.PVal{Kind: "string", S: val}}
}

// property sets for markers; name is the marker name (for the shorthand form)
func propSets(name string) (sets [][]mg.Prop, shorthand []bool) {
	add := func(sh bool, ps ...mg.Prop) { sets = append(sets, ps); shorthand = append(shorthand, sh) }
	add(false)
	add(false, pInt("n", 3))
	add(false, pFloat("x", "1.05", 1.05))
	add(false, pFloat("x", "2.50", 2.5))
	add(false, pFloat("x", "0.007", 0.007))
	add(false, pBool("t", "True", true))
	add(false, pBool("t", "false", false))
	add(false, pWord("w", "word"))
	add(false, pQuoted("s", `"a b"`, "a b"))
	add(false, pQuoted("s", `"q\"r"`, `q"r`))
	add(true, pInt(name, 12))
	add(true, pWord(name, "v"), pBool("t", "TRUE", true))
	add(false, pInt("n", 10), pFloat("x", "10.010", 10.01), pQuoted("s", `"é 日"`, "é 日"))
	return
}

type replacement struct {
	src, text string
}

func replacements() []replacement {
	var out []replacement
	out = append(out,
		replacement{`[select value=a a="first" b="second" /]`, "first"},
		replacement{`[select value=b a="first" b="% is b" /]`, "b is b"},
		replacement{`[select value=2 1="one" 2="% née" /]`, "2 née"},
		replacement{`[plural value=1 one="% apple" other="% apples" /]`, "1 apple"},
		replacement{`[plural value=5 one="% apple" other="% apples" /]`, "5 apples"},
		replacement{`[nomarkup][b]raw \[x\][/b][/nomarkup]`, `[b]raw \[x\][/b]`},
		replacement{`[nomarkup]日本[a/][/nomarkup]`, "日本[a/]"},
		replacement{`[select value=a a="closed"][/select]`, "closed"},
		replacement{`[plural value=2 one="one" other="other %"][/plural]`, "other 2"},
	)
	suffix := func(n int) string {
		switch {
		case n%10 == 1 && n%100 != 11:
			return "st"
		case n%10 == 2 && n%100 != 12:
			return "nd"
		case n%10 == 3 && n%100 != 13:
			return "rd"
		}
		return "th"
	}
	for _, n := range []int{1, 2, 3, 4, 11, 12, 13, 21, 22, 23, 101, 111} {
		out = append(out, replacement{fmt.Sprintf(`[ordinal value=%d one="%%st" two="%%nd" few="%%rd" other="%%th" /]`, n), fmt.Sprint(n) + suffix(n)})
	}
	out = append(out, replacement{`[ordinal value=3 one="%st" two="%nd" few="%rd" other="%th"][/ordinal]`, "3rd"})
	return out
}

// c13RefusedLines are lines the markup parser refuses, each at another stage and each after it has read well-formed
// markers (open ones among them, at positions beyond the length of the lines of the families).
var c13RefusedLines = []string{
	"Oh, a rather long start, [wave]hello[/wave] there [b]and [bounce",
	"[wave]Hello[/bounce] over there",
	"A rather long start, [wave]then [select value=3 1=\"one\" 2=\"two\"/] things",
	"[a][b]far out to the right [nomarkup]unterminated",
	"some text [a][é1 x=1]then [b trimwhitespace=3/] more",
	"[a]x[plural value=q one=\"1\" other=\"n\"/]",
}

func checkLine(ctx *report.Ctx, c *explore.Chooser, partName string, l *mg.Line, nontrivial bool, alt *mg.Expected) {
	src := l.Src.String()
	ctx.Current(partName + ": " + src)
	ctx.AddEvals(1, b2i(nontrivial))
	ctx.AddStates(1)
	ctx.AddTransitions(1)
	ctx.AddTraces(1)
	fail := func(clause, detail string) {
		ctx.Violation(report.Violation{Clause: clause, Witness: "markup:" + src, Detail: detail, Choices: c.Choices(), Part: partName,
			Extra: map[string]any{"line": src, "go_test": fmt.Sprintf("package markup_test\n\nimport (\n\t\"testing\"\n\n\t\"github.com/remieven/ysgo/markup\"\n)\n\nfunc TestReplay(t *testing.T) {\n\tvar lp markup.LineParser\n\tres, err := lp.ParseMarkup(%q)\n\tt.Logf(\"%%+v %%v\", res, err)\n}\n", src)}})
	}
	var lp markup.LineParser
	var res *markup.ParseResult
	var err error
	if p := guard(func() { res, err = lp.ParseMarkup(src) }); p != nil {
		fail("markup-panic", fmt.Sprintf("ParseMarkup panicked: %v", p))
		return
	}
	ex := l.Expected()
	if err != nil {
		fail("markup-error", "ParseMarkup refused a well-formed line: "+err.Error()+"; expected text "+fmt.Sprintf("%q", ex.Text))
		return
	}
	ctx.Outcome(res.Text + "|" + fmt.Sprint(len(res.Attributes)))
	if res.Text != ex.Text {
		fail("markup-text", fmt.Sprintf("plain text: expected %q, got %q", ex.Text, res.Text))
		return
	}
	got, pan := mg.RealKeys(res, mg.ReplacementNames)
	if pan != "" {
		fail("markup-textforattribute-panic", "TextForAttribute panicked: "+pan+fmt.Sprintf(" (attributes %+v on text %q)", res.Attributes, res.Text))
		return
	}
	// the same line on a parser that has just refused lines at every stage of parsing (a dialogue runner owns one parser
	// and goes on after a line that failed): the result is that of the fresh parser
	{
		var used markup.LineParser
		var res2 *markup.ParseResult
		var err2 error
		if p := guard(func() {
			for _, bad := range c13RefusedLines {
				if _, e := used.ParseMarkup(bad); e == nil {
					ctx.HarnessError("C13: the line %q is meant to be refused by the markup parser and was accepted", bad)
				}
			}
			res2, err2 = used.ParseMarkup(src)
		}); p != nil {
			fail("markup-after-refused-lines", fmt.Sprintf("ParseMarkup panicked on a parser that had refused other lines before: %v", p))
			return
		}
		if err2 != nil {
			fail("markup-after-refused-lines", "a parser that had refused other lines before refuses this well-formed line: "+err2.Error())
			return
		}
		got2, pan2 := mg.RealKeys(res2, mg.ReplacementNames)
		if pan2 != "" || res2.Text != res.Text || strings.Join(got2, " ; ") != strings.Join(got, " ; ") {
			fail("markup-after-refused-lines", fmt.Sprintf("on a parser that had refused %d other lines before: text %q attributes [%s] %s; on a fresh parser: text %q attributes [%s]", len(c13RefusedLines), res2.Text, strings.Join(got2, " ; "), pan2, res.Text, strings.Join(got, " ; ")))
			return
		}
	}
	want := ex.Keys()
	if strings.Join(got, " ; ") != strings.Join(want, " ; ") {
		if alt != nil && strings.Join(got, " ; ") == strings.Join(alt.Keys(), " ; ") {
			return
		}
		fail("markup-attributes", fmt.Sprintf("attributes: expected [%s], got [%s] (text %q)", strings.Join(want, " ; "), strings.Join(got, " ; "), res.Text))
		return
	}
	if ctx.WantSample() && len(want) >= 2 && len(src) > 30 {
		ctx.Sample(map[string]any{"part": partName, "line": src, "text": ex.Text, "attributes": want})
	}
}

func runC13(ctx *report.Ctx) {
	texts := []string{"a", "xy", "é", "日本", "😀", " ", "a b"}
	names := []string{"a", "b", "é1"}
	reps := replacements()
	maxItems := report.Pick(ctx, 4, 4)

	// item kinds: 0 text, 1 escape, 2 open, 3 close, 4 close-all, 5 self-closing, 6 replacement
	build := func(c *explore.Chooser, n int, l *mg.Line, fullProps bool) (markers int) {
		for i := 0; i < n; i++ {
			open := l.OpenNames()
			kinds := []int{0, 1, 2, 5, 6}
			if len(open) > 0 {
				kinds = append(kinds, 3, 4)
			}
			switch kinds[c.Choose(len(kinds), "item")] {
			case 0:
				l.Text(texts[c.Choose(len(texts), "text")])
			case 1:
				l.Escape([]rune{'[', ']'}[c.Choose(2, "bracket")])
			case 2:
				var free []string
				for _, nm := range names {
					isOpen := false
					for _, o := range open {
						if o == nm {
							isOpen = true
						}
					}
					if !isOpen {
						free = append(free, nm)
					}
				}
				if len(free) == 0 {
					l.Text("a")
					continue
				}
				nm := free[c.Choose(len(free), "name")]
				sets, sh := propSets(nm)
				k := 0
				if fullProps {
					k = c.Choose(len(sets), "props")
				} else {
					k = []int{0, 2, 9, 11}[c.Choose(4, "props")]
				}
				l.Open(nm, sets[k], sh[k])
				markers++
			case 3:
				l.Close(open[c.Choose(len(open), "close")])
				markers++
			case 4:
				l.CloseAll()
				markers++
			case 5:
				nm := names[c.Choose(len(names), "name")]
				sets, _ := propSets(nm)
				var props []mg.Prop
				switch c.Choose(4, "selfprops") {
				case 1:
					props = sets[1]
				case 2:
					props = []mg.Prop{pBool("trimwhitespace", "false", false)}
				case 3:
					props = sets[12]
				}
				l.SelfClosing(nm, props)
				markers++
			case 6:
				r := reps[c.Choose(len(reps), "replacement")]
				l.Replacement(r.src, r.text)
				markers++
			}
		}
		return markers
	}

	part(ctx, "M", -1, func(c *explore.Chooser) {
		n := 1 + c.Choose(maxItems, "nitems")
		l := &mg.Line{}
		markers := build(c, 1, l, n <= 3)
		if !c.Mine() { // shard on (length, first item): the rest of a foreign subtree is not even enumerated
			return
		}
		markers += build(c, n-1, l, n <= 3)
		if !l.Finish() || l.Ambiguous != "" {
			ctx.Skip("construction left open markers or has no single meaning")
			return
		}
		checkLine(ctx, c, "M", l, markers > 0, nil)
	})

	// prefix and outer whitespace, <=3 items
	part(ctx, "M-prefix-whitespace", -1, func(c *explore.Chooser) {
		l := &mg.Line{}
		variant := c.Choose(6, "decoration")
		switch variant {
		case 0:
			l.Prefix("Bob")
		case 1:
			l.Prefix("Zoé")
		case 2:
			l.Prefix("日本 人")
		case 3:
			l.Text("  ")
		case 4:
			l.Text(" \t")
		case 5:
			l.Text("   ")
		}
		n := 1 + c.Choose(3, "nitems")
		markers := build(c, 1, l, false)
		if !c.Mine() {
			return
		}
		markers += build(c, n-1, l, false)
		trailing := c.Choose(2, "trailing")
		if trailing == 1 {
			l.Text("  ")
		}
		if !l.Finish() || l.Ambiguous != "" {
			ctx.Skip("construction left open markers or has no single meaning")
			return
		}
		if strings.TrimSpace(string(l.Plain)) == "" && l.HasPrefix {
			return
		}
		checkLine(ctx, c, "M-prefix-whitespace", l, markers > 0, nil)
	})

	if !ctx.Quick() {
		part(ctx, "M5", -1, func(c *explore.Chooser) {
			l := &mg.Line{}
			markers := 0
			smallTexts := []string{"a", "é", " "}
			for i := 0; i < 5; i++ {
				open := l.OpenNames()
				kinds := []int{0, 2, 5, 6}
				if len(open) > 0 {
					kinds = append(kinds, 3, 4)
				}
				switch kinds[c.Choose(len(kinds), "item")] {
				case 0:
					l.Text(smallTexts[c.Choose(len(smallTexts), "text")])
				case 2:
					nm := names[c.Choose(2, "name")]
					isOpen := false
					for _, o := range open {
						if o == nm {
							isOpen = true
						}
					}
					if isOpen {
						l.Text("a")
						continue
					}
					l.Open(nm, nil, false)
					markers++
				case 3:
					l.Close(open[c.Choose(len(open), "close")])
					markers++
				case 4:
					l.CloseAll()
					markers++
				case 5:
					l.SelfClosing("b", nil)
					markers++
				case 6:
					r := reps[[]int{1, 2, 5}[c.Choose(3, "replacement")]]
					l.Replacement(r.src, r.text)
					markers++
				}
			}
			if !c.Mine() {
				return
			}
			if !l.Finish() || l.Ambiguous != "" {
				ctx.Skip("construction left open markers or has no single meaning")
				return
			}
			checkLine(ctx, c, "M5", l, markers > 0, nil)
		})
	}

	// QS: quoted property values. Every string of <=3 symbols over {a, space, é, \" (escaped quote), \\ (escaped
	// backslash), ], [, =, /} between quotes (the empty string included), as a property value, as shorthand value, in a
	// self-closing marker and as the replacement text of a select marker; the value is the text with the escapes resolved
	{
		type sym struct{ src, val string }
		syms := []sym{{"a", "a"}, {" ", " "}, {"é", "é"}, {`\"`, `"`}, {`\\`, `\`}, {"]", "]"}, {"[", "["}, {"=", "="}, {"/", "/"}}
		part(ctx, "QS", -1, func(c *explore.Chooser) {
			n := c.Choose(4, "len")
			var src, val string
			for i := 0; i < n; i++ {
				sy := syms[c.Choose(len(syms), "symbol")]
				src += sy.src
				val += sy.val
			}
			form := c.Choose(4, "form")
			if !c.Mine() {
				return
			}
			l := &mg.Line{}
			l.Text("t ")
			pr := pQuoted("s", `"`+src+`"`, val)
			switch form {
			case 0:
				l.Open("a", []mg.Prop{pInt("n", 1), pr}, false)
				l.Text("u")
				l.Close("a")
			case 1:
				pr.Name = "a"
				l.Open("a", []mg.Prop{pr}, true)
				l.Text("u")
				l.CloseAll()
			case 2:
				l.SelfClosing("a", []mg.Prop{pr})
			case 3:
				if strings.Contains(val, "%") {
					return
				}
				l.Replacement(`[select value=k k="`+src+`" /]`, val)
			}
			if !l.Finish() {
				ctx.HarnessError("C13 QS: construction not closed: %s", l.Src.String())
				return
			}
			if l.Ambiguous != "" {
				ctx.Skip("construction has no single meaning")
				return
			}
			checkLine(ctx, c, "QS", l, true, nil)
		})
	}

	// RV: plural and ordinal markers over every value 0..130 and a few large ones (English categories: cardinal "one"
	// for exactly 1, ordinal one / two / few / other by the last two digits), alone, after multi-byte text and inside a marker
	part(ctx, "RV", -1, func(c *explore.Chooser) {
		vals := 131 + 6
		k := c.Choose(vals, "value")
		n := k
		if k >= 131 {
			n = []int{1000, 1001, 1011, 1012, 1013, 1000000}[k-131]
		}
		kind := c.Choose(2, "kind")
		pos := c.Choose(3, "position")
		if !c.Mine() {
			return
		}
		var src, text string
		if kind == 0 {
			src, text = fmt.Sprintf(`[plural value=%d one="%% apple" other="%% apples" /]`, n), fmt.Sprintf("%d apples", n)
			if n == 1 {
				text = "1 apple"
			}
		} else {
			suf := "th"
			switch {
			case n%10 == 1 && n%100 != 11:
				suf = "st"
			case n%10 == 2 && n%100 != 12:
				suf = "nd"
			case n%10 == 3 && n%100 != 13:
				suf = "rd"
			}
			src, text = fmt.Sprintf(`[ordinal value=%d one="%%st" two="%%nd" few="%%rd" other="%%th" /]`, n), fmt.Sprintf("%d%s", n, suf)
		}
		l := &mg.Line{}
		switch pos {
		case 1:
			l.Text("日本 ")
		case 2:
			l.Open("a", nil, false)
		}
		l.Replacement(src, text)
		if pos == 2 {
			l.Text("x")
			l.Close("a")
		}
		if !l.Finish() || l.Ambiguous != "" {
			ctx.HarnessError("C13 RV: construction not closed: %s", l.Src.String())
			return
		}
		checkLine(ctx, c, "RV", l, true, nil)
	})

	// V: numeric property values. Every decimal literal i.f over a grid of integer parts and every fraction
	// string of <=3 (quick) / 4 (thorough) digits, long fractions of up to 40 digits, and integers with
	// leading zeros, in every syntactic position a value can take; the expected value is the decimal
	// meaning of the literal as written (strconv.ParseFloat of the very characters).
	{
		ints := []string{"0", "1", "2", "3", "9", "12", "100", "007"}
		if !ctx.Quick() {
			for i := 4; i <= 20; i++ {
				ints = append(ints, fmt.Sprint(i))
			}
			ints = append(ints, "99", "255", "1000", "65536", "123456789", "4503599627370497", "9007199254740993")
		}
		maxFrac := report.Pick(ctx, 3, 4)
		var fracs []string
		var rec func(prefix string)
		rec = func(prefix string) {
			if prefix != "" {
				fracs = append(fracs, prefix)
			}
			if len(prefix) < maxFrac {
				for d := 0; d < 10; d++ {
					rec(prefix + fmt.Sprint(d))
				}
			}
		}
		rec("")
		nGrid := len(fracs)
		for n := maxFrac + 1; n <= 40; n++ {
			for _, d := range []string{"0", "1", "3", "9"} {
				fracs = append(fracs, strings.Repeat(d, n))
			}
			fracs = append(fracs, strings.Repeat("0", n-1)+"4", "30000000000000004000000000000000000000001"[:n], "14285714285714285714285714285714285714285"[:n], "49999999999999994499999999999999999999999"[:n])
		}
		ctx.Bound("V_integer_parts", len(ints))
		ctx.Bound("V_fraction_strings", len(fracs))
		ctx.Bound("V_fraction_strings_complete_up_to_digits", maxFrac)
		_ = nGrid
		part(ctx, "V", -1, func(c *explore.Chooser) {
			ip := ints[c.Choose(len(ints), "int")]
			form := c.Choose(4, "form")
			if !c.Mine() {
				return
			}
			fi := c.Choose(len(fracs)+1, "fraction")
			l := &mg.Line{}
			l.Text("t ")
			var pr mg.Prop
			if fi == 0 {
				n, _ := strconv.Atoi(ip)
				pr = mg.Prop{Name: "x", Src: ip, Val: mg.PVal{Kind: "int", I: n}}
			} else {
				src := ip + "." + fracs[fi-1]
				f, err := strconv.ParseFloat(src, 64)
				if err != nil {
					ctx.HarnessError("C13 V: %q: %v", src, err)
					return
				}
				pr = pFloat("x", src, f)
			}
			switch form {
			case 0:
				l.Open("a", []mg.Prop{pr}, false)
				l.Text("u")
				l.Close("a")
			case 1:
				pr.Name = "a"
				l.Open("a", []mg.Prop{pr}, true)
				l.Text("u")
				l.CloseAll()
			case 2:
				l.SelfClosing("a", []mg.Prop{pr})
			case 3:
				l.Open("a", []mg.Prop{pWord("w", "z"), pr, pBool("k", "true", true)}, false)
				l.Text("u")
				l.Close("a")
			}
			if !l.Finish() || l.Ambiguous != "" {
				ctx.HarnessError("C13 V: construction not closed: %s", l.Src.String())
				return
			}
			checkLine(ctx, c, "V", l, true, nil)
		})
	}

	// S: marker structures with same-name markers open at once. Every marker is followed by one
	// character of text, so that all positions are distinct.
	maxS := report.Pick(ctx, 8, 11)
	part(ctx, "S", -1, func(c *explore.Chooser) {
		n := 1 + c.Choose(maxS, "nitems")
		var evs []int // 1 open a 2 open b 3 close a 4 close b 5 close all
		for i := 0; i < n; i++ {
			evs = append(evs, 1+c.Choose(5, "event"))
			if i == 1 || (n == 1 && i == 0) {
				if !c.Mine() {
					return
				}
			}
		}
		// build under both pairings; keep selects the marker names that are written
		mk := func(lifo bool, keep map[string]bool) (*mg.Line, []mg.ExpAttr, bool) {
			l := &mg.Line{}
			type om struct {
				name string
				pos  int
			}
			var open []om
			var attrs []mg.ExpAttr
			for i, e := range evs {
				switch e {
				case 1, 2:
					nm := []string{"a", "b"}[e-1]
					if keep[nm] {
						l.Src.WriteString("[" + nm + "]")
						open = append(open, om{nm, len(l.Plain)})
					}
				case 3, 4:
					nm := []string{"a", "b"}[e-3]
					if keep[nm] {
						idx := -1
						for j, o := range open {
							if o.name == nm {
								idx = j
								if !lifo {
									break
								}
							}
						}
						if idx < 0 {
							return nil, nil, false
						}
						l.Src.WriteString("[/" + nm + "]")
						attrs = append(attrs, mg.ExpAttr{Name: nm, Props: map[string]mg.PVal{}, Pos: open[idx].pos, End: len(l.Plain)})
						open = append(open[:idx:idx], open[idx+1:]...)
					}
				case 5:
					l.Src.WriteString("[/]")
					for _, o := range open {
						attrs = append(attrs, mg.ExpAttr{Name: o.name, Props: map[string]mg.PVal{}, Pos: o.pos, End: len(l.Plain)})
					}
					open = nil
				}
				l.Text(fmt.Sprint(i % 10))
			}
			return l, attrs, len(open) == 0
		}
		both := map[string]bool{"a": true, "b": true}
		l, fifo, ok := mk(false, both)
		if !ok {
			return
		}
		_, lifo, _ := mk(true, both)
		l.Attrs = fifo
		l2 := &mg.Line{Plain: l.Plain, Attrs: lifo}
		alt := l2.Expected()
		before := ctx.ViolationCount()
		checkLine(ctx, c, "S", l, true, &alt)
		if ctx.ViolationCount() != before {
			return
		}
		// markers of another name must not change which close pairs with which open: compare the
		// attributes of each name with those of the line from which the other name is removed
		for _, nm := range []string{"a", "b"} {
			only, _, ok := mk(false, map[string]bool{nm: true})
			if !ok || only.Src.String() == l.Src.String() {
				continue
			}
			var lpFull, lpOnly markup.LineParser
			resFull, err1 := lpFull.ParseMarkup(l.Src.String())
			resOnly, err2 := lpOnly.ParseMarkup(only.Src.String())
			if err1 != nil || err2 != nil {
				continue // reported by checkLine when it is a well-formed line
			}
			ignoreOther := map[string]bool{"a": nm != "a", "b": nm != "b"}
			k1, _ := mg.RealKeys(resFull, ignoreOther)
			k2, _ := mg.RealKeys(resOnly, ignoreOther)
			ctx.AddEvals(1, 1)
			ctx.AddTransitions(2)
			if strings.Join(k1, " ; ") != strings.Join(k2, " ; ") {
				ctx.Violation(report.Violation{Clause: "markup-pairing-depends-on-other-markers", Witness: "markup:" + l.Src.String(),
					Detail:  fmt.Sprintf("the %q attributes of %q are [%s], but [%s] once the markers of the other name are removed (%q): markers of another name changed which close belongs to which open", nm, l.Src.String(), strings.Join(k1, " ; "), strings.Join(k2, " ; "), only.Src.String()),
					Choices: c.Choices(), Part: "S"})
				return
			}
		}
	})

	// through the runner: the <=3-item lines shown as dialogue lines
	part(ctx, "runner", -1, func(c *explore.Chooser) {
		n := 1 + c.Choose(report.Pick(ctx, 2, 3), "nitems")
		l := &mg.Line{}
		pre := c.Choose(2, "prefix")
		if pre == 1 {
			l.Prefix("Zoé")
		}
		markers := build(c, n, l, false)
		if !c.Mine() {
			return
		}
		if !l.Finish() || l.Ambiguous != "" {
			return
		}
		src := l.Src.String()
		if strings.HasPrefix(src, `\[`) || strings.HasPrefix(src, `\]`) || strings.HasPrefix(src, " ") || strings.HasPrefix(src, "->") || strings.TrimSpace(src) == "" ||
			strings.Contains(src, "//") || strings.Contains(src, "<<") || strings.Contains(src, "#") || strings.Contains(src, "{") || strings.Contains(src, `\"`) {
			return
		}
		script := "title: A\n---\n" + src + "\n===\n"
		ctx.Current("runner: " + script)
		r, err, pan := yc.NewReal([]string{script}, "abc", nil)
		ctx.AddEvals(1, b2i(markers > 0))
		ctx.AddStates(1)
		ctx.AddTransitions(1)
		fail := func(clause, detail string) {
			ctx.Violation(report.Violation{Clause: clause, Witness: "runner-markup:" + src, Detail: detail, Choices: c.Choices(), Part: "runner", Extra: map[string]any{"scripts": []string{script}}})
		}
		if err != nil || pan != "" {
			fail("runner-load", fmt.Sprintf("the script with this line does not load: %v %s", err, pan))
			return
		}
		ro := r.Next(0)
		if ro.K != yc.OLine {
			fail("runner-line", "expected the line, got "+ro.String()+fmt.Sprint(" ", ro.Err))
			return
		}
		ex := l.Expected()
		if ro.Text != ex.Text {
			fail("runner-text", fmt.Sprintf("text: expected %q, got %q", ex.Text, ro.Text))
			return
		}
		res := &markup.ParseResult{Text: ro.Text, Attributes: ro.Attrs}
		got, pan2 := mg.RealKeys(res, mg.ReplacementNames)
		want := ex.Keys()
		sort.Strings(want)
		if pan2 != "" || strings.Join(got, " ; ") != strings.Join(want, " ; ") {
			fail("runner-attributes", fmt.Sprintf("Line.Attributes: expected [%s], got [%s] %s", strings.Join(want, " ; "), strings.Join(got, " ; "), pan2))
		}
	})

	// through the runner, as options: the runner prepares all options of a choice with one parser and returns them
	// together; every option must carry its own text and attributes (first option <=2 items, the others 1 item)
	embeddable := func(src string) bool {
		return !(strings.HasPrefix(src, `\[`) || strings.HasPrefix(src, `\]`) || strings.HasPrefix(src, " ") || strings.HasPrefix(src, "->") || strings.TrimSpace(src) == "" ||
			strings.Contains(src, "//") || strings.Contains(src, "<<") || strings.Contains(src, "#") || strings.Contains(src, "{") || strings.Contains(src, `\"`))
	}
	part(ctx, "runner-options", -1, func(c *explore.Chooser) {
		k := 2 + c.Choose(report.Pick(ctx, 1, 2), "noptions")
		var lines []*mg.Line
		markers := 0
		for i := 0; i < k; i++ {
			l := &mg.Line{}
			n := 1
			if i == 0 {
				n = 1 + c.Choose(2, "nitems")
			}
			markers += build(c, n, l, false)
			if i == 0 && !c.Mine() {
				return
			}
			if !l.Finish() || l.Ambiguous != "" || !embeddable(l.Src.String()) {
				return
			}
			lines = append(lines, l)
		}
		script := "title: A\n---\n"
		for _, l := range lines {
			script += "-> " + l.Src.String() + "\n"
		}
		script += "===\n"
		ctx.Current("runner-options: " + script)
		r, err, pan := yc.NewReal([]string{script}, "abc", nil)
		ctx.AddEvals(1, b2i(markers > 0))
		ctx.AddStates(1)
		ctx.AddTransitions(1)
		fail := func(clause, detail string) {
			ctx.Violation(report.Violation{Clause: clause, Witness: "runner-option-markup:" + strings.ReplaceAll(script, "\n", " / "), Detail: detail, Choices: c.Choices(), Part: "runner-options", Extra: map[string]any{"scripts": []string{script}}})
		}
		if err != nil || pan != "" {
			fail("runner-load", fmt.Sprintf("the script with these options does not load: %v %s", err, pan))
			return
		}
		ro := r.Next(0)
		if ro.K != yc.OOptions || len(ro.Opts) != k {
			fail("runner-line", "expected the option group, got "+ro.String()+fmt.Sprint(" ", ro.Err))
			return
		}
		for i, l := range lines {
			ex := l.Expected()
			if ro.Opts[i].Text != ex.Text {
				fail("runner-text", fmt.Sprintf("option %d text: expected %q, got %q", i, ex.Text, ro.Opts[i].Text))
				return
			}
			res := &markup.ParseResult{Text: ro.Opts[i].Text, Attributes: ro.Opts[i].Attrs}
			got, pan2 := mg.RealKeys(res, mg.ReplacementNames)
			want := ex.Keys()
			sort.Strings(want)
			if pan2 != "" || strings.Join(got, " ; ") != strings.Join(want, " ; ") {
				fail("runner-attributes", fmt.Sprintf("option %d Line.Attributes: expected [%s], got [%s] %s", i, strings.Join(want, " ; "), strings.Join(got, " ; "), pan2))
				return
			}
		}
	})
}
