package checks

import (
	"fmt"
	"github.com/remieven/ysgo"
	"github.com/remieven/ysgo/variable"
	"github.com/remieven/ysgo/verifx/internal/dump"
	"strings"
	"time"

	"github.com/remieven/ysgo/verifx/internal/explore"
	"github.com/remieven/ysgo/verifx/internal/report"
	yc "github.com/remieven/ysgo/verifx/internal/yarncore"
)

func init() {
	register(&Check{
		Meta: report.Meta{
			Property: "C01",
			Rule: "every YarnCore program of the families F1 (control skeletons: line, option group with bodies, if/elseif/else, set, jump, stop over 1-3 nodes), " +
				"F2 (nestings of option groups and ifs to depth 3 with lines before, inside and after every body), F3 (F1 plus declare, call, command, jump by expression) " +
				"HUB (one jump-by-expression statement re-executed three times with another destination each time: 7 destination expressions over variables x 3 placements x 2 room orders), F1-layout (the F1 family under CRLF / CR / tab layouts with a blank, comment or whitespace-only line before every body line), ARGS (every argument of Next at steps that do not follow a choice), F1-refused (one host operation that the library refuses - a restore naming an unknown node, a registration of something that is no function - at every point of every path: nothing changes) " +
				"and R (every distribution of the nodes over readers) up to the statement bound, times every choice sequence, executed on a fresh real runner in lock-step with the reference interpreter; " +
				"a case is one (program, path); non-trivial = the path contains at least one choice, jump, if or stop",
			StatesMean:  "runner states visited = (program, trace prefix) pairs; transitions = real Next calls compared with the model",
			Assumptions: []string{"small-scope hypothesis: programs beyond the statement bound are not explored", "canonical layout except in F1-layout (layout is C08's subject)", "reference interpreter (internal/yarncore/interp.go) is the specification of Yarn's sequential semantics"},
		},
		QuickBudget: 180 * time.Second, ThoroughBudget: 14 * time.Minute, CrashIsViolation: true,
		Run: runC01,
	})
}

var stdHost = &yc.HostSpec{
	Funcs: []yc.FuncSpec{{Name: "probe", Echo: true}, {Name: "note"}},
	Cmds: []yc.CmdSpec{{Name: "act"}, {Name: "beep"}, {Name: "later", Deferred: true}, {Name: "laterfail", Deferred: true, Fails: true},
		{Name: "laterclose", Deferred: true, ByClose: true}, {Name: "closed", ByClose: true}},
	Vars: map[string]yc.Value{"f": yc.Bool(false)},
}

// walkProgram is the common leaf of the program-quantified checks: render canonically, skip
// programs that cannot return, walk all paths in lock-step, report the first mismatch.
func walkProgram(ctx *report.Ctx, c *explore.Chooser, partName string, p *yc.Program, hs *yc.HostSpec, wo yc.WalkOpts, lay *yc.Layout, setting ...string) {
	srcs := yc.Render(p, lay)
	if _, div := yc.ModelPaths(p, hs, wo); div {
		ctx.Skip("jump cycle that never yields (no implementation can return)")
		return
	}
	script := scriptOf(srcs)
	ctx.Current(partName + ": " + script)
	mm, st := yc.Walk(p, srcs, hs, wo)
	nontrivial := int64(0)
	if yc.CountStmts(p.Nodes[0].Body) > 0 {
		nontrivial = st.Paths
	}
	ctx.AddEvals(st.Paths, nontrivial)
	ctx.AddStates(st.Steps)
	ctx.AddTransitions(st.Steps)
	ctx.AddTraces(st.Paths)
	ctx.Count("programs", 1)
	ctx.Count("paths_cut_by_horizon", st.Truncated)
	ctx.Count("ends_reached", st.EndsReached)
	for o := range st.Outcomes {
		ctx.Outcome(o)
	}
	if ctx.WantSample() && st.Paths > 1 {
		ctx.Sample(map[string]any{"part": partName, "script": script, "paths": st.Paths, "steps": st.Steps})
	}
	if mm != nil {
		w := fmt.Sprintf("%s path=%s", script, intsString(mm.Path))
		if len(setting) > 0 {
			w += " setting=" + strings.Join(setting, ",")
		}
		if len(mm.Notes) > 0 {
			w += " host=" + strings.Join(mm.Notes, ";")
		}
		ctx.Violation(report.Violation{
			Clause:  mm.Clause,
			Witness: w,
			Detail:  fmt.Sprintf("%s; Next arguments %s; observed trace %v", mm.Detail, intsString(mm.Args), mm.Trace),
			Choices: c.Choices(), Part: partName,
			Extra: map[string]any{"scripts": srcs, "path": mm.Path, "args": mm.Args, "trace": mm.Trace,
				"go_test": goTestFor(srcs, "abc", mm.Args, mm.Detail)},
		})
	}
}

func runC01(ctx *report.Ctx) {
	argv := []int{0, 1, 7, -1}
	wo := yc.WalkOpts{MaxSteps: 14, MaxJumps: 4, ArgVariants: argv, CompareStore: true, CompareLog: true, StrictErrors: true}

	// F1: control skeletons
	f1size := report.Pick(ctx, 3, 4)
	f1nodes := report.Pick(ctx, 2, 2)
	ctx.Bound("F1", fmt.Sprintf("<=%d statements over 1..%d nodes, alphabet line/opts(1-2)/if(1-2 clauses,else)/set true/set false/jump/stop, depth<=2", f1size, f1nodes))
	part(ctx, "F1", -1, func(c *explore.Chooser) {
		g := &progGen{c: c, rem: f1size, kinds: []string{"line", "opts", "if", "setT", "setF", "jump", "stop"}, maxDepth: 2, maxOpts: 2, maxCl: 2, conds: condsF}
		p := g.program(f1nodes)
		if !c.Mine() {
			return
		}
		walkProgram(ctx, c, "F1", p, stdHost, wo, nil)
	})

	// F1-layout: the flow of a program is that of its statements however the script is laid out: the F1 family once
	// more (single node), under three legal but unusual layouts (CRLF / CR line ends, tab indentation, a blank line,
	// a whitespace-only line or a comment line before every body line)
	ctx.Bound("F1-layout", "F1 alphabet, <=3 statements in one node plus a target, x {CRLF + blank line before every line, CR + indented comment lines, tabs + whitespace-only lines, canonical} x every line and option label starting with one of {nothing, /, -, =, <, >, é}")
	part(ctx, "F1-layout", -1, func(c *explore.Chooser) {
		g := &progGen{c: c, rem: 3, kinds: []string{"line", "opts", "if", "setT", "jump", "stop"}, maxDepth: 2, maxOpts: 2, maxCl: 2, conds: condsF, extraTargets: []string{"Z"}}
		// every line and option label starts with a character the lexer looks at when it decides what a line is
		g.linePrefix = []string{"", "/", "-", "=", "<", ">", "é"}[c.Choose(7, "line-start")]
		p := g.program(1)
		p.Nodes = append(p.Nodes, &yc.Node{Title: "Z", Body: []*yc.Stmt{yc.Line("inZ")}})
		which := c.Choose(4, "layout")
		if !c.Mine() {
			return
		}
		lay := []*yc.Layout{{EOL: "\r\n"}, {EOL: "\r"}, {Unit: "\t"}, {}}[which]
		if which < 3 {
			filler := []string{"", "        // note", "  "}[which]
			lay.Gaps = map[int]map[int][]string{0: {}}
			for i, ln := range yc.Lines(p, lay)[0] {
				if ln.InBody {
					lay.Gaps[0][i] = []string{filler}
				}
			}
		}
		walkProgram(ctx, c, "F1-layout", p, stdHost, wo, lay)
	})

	// F1-refused: the F1 family (one statement less) where, between any two steps or before the first, the host performs one
	// operation the library refuses (RestoreAt of a snapshot naming an unknown node, registration of values that are no
	// functions / commands under new and existing names): the dialogue goes on as if nothing had been tried - a pending
	// choice is still pending, the flow, the variables and the handlers are what they were
	ctx.Bound("F1-refused", fmt.Sprintf("F1 alphabet plus command / call / command completed after one poll, <=%d statements over 1..2 nodes, one refused host operation at every point of every path", f1size-1))
	part(ctx, "F1-refused", -1, func(c *explore.Chooser) {
		extra := map[string]func(g *progGen) *yc.Stmt{
			"cmd":  func(g *progGen) *yc.Stmt { return yc.Command("act", yc.CmdArg{Word: fmt.Sprint(g.lineNo)}) },
			"call": func(g *progGen) *yc.Stmt { return yc.Call("note", yc.ENumber(float64(g.lineNo))) },
			"dcmd": func(g *progGen) *yc.Stmt {
				return yc.Command([]string{"later", "laterfail"}[g.c.Choose(2, "fails")], yc.CmdArg{Word: fmt.Sprint(g.lineNo)})
			},
		}
		g := &progGen{c: c, rem: f1size - 1, kinds: []string{"line", "opts", "if", "setT", "jump", "stop", "cmd", "call", "dcmd"}, maxDepth: 2, maxOpts: 2, maxCl: 1, conds: condsF, extra: extra}
		p := g.program(f1nodes)
		if !c.Mine() {
			return
		}
		wr := wo
		wr.Refusals = 1
		walkProgram(ctx, c, "F1-refused", p, stdHost, wr, nil)
	})

	// RESTORE-TWICE: the flow after a restore is the flow from the entry of the restored node - also after a second restore of
	// the same save value, made after the dialogue has moved on (C07's exploration on a script with loops, small bounds)
	restoreExplore(ctx, "RESTORE-TWICE", c07Scripts(true)[2:3], c07Host, c07Bounds{pre: report.Pick(ctx, 2, 4), mid: 0, recv: 1, cont: report.Pick(ctx, 3, 5), keep: true})

	// F1c: one generated node (plus a fixed jump target), one more statement
	f1csize := report.Pick(ctx, 4, 5)
	ctx.Bound("F1c", fmt.Sprintf("<=%d statements in one node plus a fixed target node, same alphabet as F1", f1csize))
	part(ctx, "F1c", -1, func(c *explore.Chooser) {
		g := &progGen{c: c, rem: f1csize, kinds: []string{"line", "opts", "if", "setT", "setF", "jump", "stop"}, maxDepth: 2, maxOpts: 2, maxCl: 2, conds: condsF, extraTargets: []string{"Z"}}
		p := g.program(1)
		p.Nodes = append(p.Nodes, &yc.Node{Title: "Z", Body: []*yc.Stmt{yc.Line("inZ")}})
		if !c.Mine() {
			return
		}
		walkProgram(ctx, c, "F1c", p, stdHost, wo, nil)
	})

	// F1b: three nodes, smaller alphabet (jumps between three nodes, reader order)
	part(ctx, "F1b", -1, func(c *explore.Chooser) {
		g := &progGen{c: c, rem: report.Pick(ctx, 3, 4), kinds: []string{"line", "opts", "jump", "stop"}, maxDepth: 1, maxOpts: 2, maxCl: 1, conds: condsF}
		p := g.program(3)
		if len(p.Nodes) < 3 {
			return
		}
		if !c.Mine() {
			return
		}
		walkProgram(ctx, c, "F1b", p, stdHost, wo, nil)
	})

	// F2: nesting shapes in a single node
	f2depth := report.Pick(ctx, 3, 4)
	ctx.Bound("F2", fmt.Sprintf("single node, every nesting of option groups / ifs to depth %d, a line before, inside and after every body, optional jump/stop in the innermost body", f2depth))
	part(ctx, "F2", -1, func(c *explore.Chooser) {
		n := 0
		line := func() *yc.Stmt { n++; return yc.Line(fmt.Sprintf("L%d", n)) }
		var shape func(d int) []*yc.Stmt
		shape = func(d int) []*yc.Stmt {
			body := []*yc.Stmt{line()}
			if d > 0 {
				switch c.Choose(4, "nest") {
				case 1: // option group with two options, the first nests further
					body = append(body, yc.Options(&yc.Option{Line: yc.TextLine(fmt.Sprintf("O%da", d)), Body: shape(d - 1)},
						&yc.Option{Line: yc.TextLine(fmt.Sprintf("O%db", d)), Body: nil}))
				case 2: // if true / else
					body = append(body, yc.If(&yc.Clause{Cond: yc.EBoolean(true), Body: shape(d - 1)}, &yc.Clause{Body: []*yc.Stmt{line()}}))
				case 3: // if false / elseif $f / else with nesting in the else
					body = append(body, yc.If(&yc.Clause{Cond: yc.EBoolean(false), Body: []*yc.Stmt{line()}},
						&yc.Clause{Cond: yc.EVariable("f"), Body: []*yc.Stmt{line()}}, &yc.Clause{Body: shape(d - 1)}))
				}
			} else {
				switch c.Choose(4, "tail") {
				case 1:
					body = append(body, yc.Jump("B"))
				case 2:
					body = append(body, yc.Stop())
				case 3:
					body = append(body, yc.Options(&yc.Option{Line: yc.TextLine("Ox")}))
				}
			}
			if c.Choose(2, "after") == 0 {
				body = append(body, line())
			}
			return body
		}
		p := &yc.Program{Nodes: []*yc.Node{{Title: "A", Body: shape(f2depth)}, {Title: "B", Body: []*yc.Stmt{yc.Line("inB")}}}}
		if !c.Mine() {
			return
		}
		walkProgram(ctx, c, "F2", p, stdHost, wo, nil)
	})

	// F3: effects
	f3size := report.Pick(ctx, 2, 3)
	ctx.Bound("F3", fmt.Sprintf("<=%d statements over 1..2 nodes, F1 alphabet plus declare, call (with and without result), immediate commands, commands completed by the host after one poll, jump by expression", f3size))
	part(ctx, "F3", -1, func(c *explore.Chooser) {
		g := &progGen{c: c, rem: f3size, maxDepth: 1, maxOpts: 2, maxCl: 1, conds: condsF,
			kinds: []string{"line", "opts", "if", "setT", "jump", "stop", "declare", "call", "cmd", "jumpexpr", "setn", "linevar", "dcmd"},
			extra: map[string]func(g *progGen) *yc.Stmt{
				"declare": func(g *progGen) *yc.Stmt { return yc.Declare("d", yc.ENumber(1)) },
				"call": func(g *progGen) *yc.Stmt {
					if g.c.Choose(2, "callkind") == 0 {
						return yc.Call("note", yc.ENumber(float64(g.lineNo)))
					}
					return yc.Call("probe", yc.EVariable("f"))
				},
				"cmd": func(g *progGen) *yc.Stmt {
					return yc.Command("act", yc.CmdArg{Word: "x"}, yc.CmdArg{E: yc.EVariable("f")})
				},
				"dcmd": func(g *progGen) *yc.Stmt {
					// a command that completes only after the first poll (the host completes it between two calls)
					return yc.Command("later", yc.CmdArg{Word: fmt.Sprint(g.lineNo)})
				},
				"jumpexpr": func(g *progGen) *yc.Stmt {
					t := g.nodes[g.c.Choose(len(g.nodes), "target")]
					return yc.JumpE(yc.EBinary("+", yc.EString(""), yc.EString(t)))
				},
				"setn": func(g *progGen) *yc.Stmt { return yc.Set("n", "=", yc.ENumber(float64(1+g.lineNo))) },
				"linevar": func(g *progGen) *yc.Stmt {
					return yc.LineOf(&yc.LineSpec{Parts: []yc.Part{{Src: "v=", Want: "v="}, {E: yc.EVariable("f")}}})
				},
			}}
		p := g.program(2)
		if !c.Mine() {
			return
		}
		walkProgram(ctx, c, "F3", p, stdHost, wo, nil)
	})

	// HUB: one jump-by-expression statement executed several times by one runner with a different destination
	// each time (a hub node that is re-entered): every execution goes where the expression points now
	ctx.Bound("HUB", "hub node re-entered 3 times; 7 destination expressions over variables x 3 placements of the jump (plain, inside an if, inside an option body) x 2 room orders")
	part(ctx, "HUB", -1, func(c *explore.Chooser) {
		s := func() *yc.Expr { return yc.EVariable("s") }
		exprs := []*yc.Expr{
			yc.EBinary("+", yc.EString("R"), s()), yc.EBinary("+", yc.EVariable("p"), s()), yc.EBinary("+", yc.EString(""), yc.EBinary("+", yc.EString("R"), s())),
			yc.EParens(yc.EBinary("+", yc.EString("R"), s())), yc.EVariable("t"), yc.EBinary("+", yc.EString(""), yc.EVariable("t")), yc.EBinary("+", yc.EBinary("+", yc.EString(""), yc.EString("R")), s()),
		}
		e := exprs[c.Choose(len(exprs), "expr")]
		placement := c.Choose(3, "placement")
		order := c.Choose(2, "order")
		if !c.Mine() {
			return
		}
		var hub []*yc.Stmt
		hub = append(hub, yc.Line("hub"))
		switch placement {
		case 0:
			hub = append(hub, yc.JumpE(e))
		case 1:
			hub = append(hub, yc.If(&yc.Clause{Cond: yc.EBoolean(true), Body: []*yc.Stmt{yc.JumpE(e)}}))
		case 2:
			hub = append(hub, yc.Options(&yc.Option{Line: yc.TextLine("go"), Body: []*yc.Stmt{yc.JumpE(e)}}, &yc.Option{Line: yc.TextLine("stay"), Body: []*yc.Stmt{yc.Line("stayed")}}))
		}
		next := map[string]string{"a": "b", "b": "c"}
		if order == 1 {
			next = map[string]string{"a": "c", "c": "b"}
		}
		room := func(n string) *yc.Node {
			body := []*yc.Stmt{yc.Line("room " + n)}
			if nx, ok := next[n]; ok {
				body = append(body, yc.Set("s", "=", yc.EString(nx)), yc.Set("t", "=", yc.EString("R"+nx)), yc.Jump("Hub"))
			}
			return &yc.Node{Title: "R" + n, Body: body}
		}
		p := &yc.Program{Nodes: []*yc.Node{{Title: "Hub", Body: hub}, room("a"), room("b"), room("c")}}
		hs := &yc.HostSpec{Vars: map[string]yc.Value{"s": yc.Str("a"), "p": yc.Str("R"), "t": yc.Str("Ra")}}
		woHub := wo
		woHub.MaxSteps = 12
		woHub.MaxJumps = 8
		walkProgram(ctx, c, "HUB", p, hs, woHub, nil)
	})

	// START-AT: a dialogue opened at a node of the host's choosing (RestoreAt of a snapshot the host builds, holding
	// the node's name only) flows from that node like any other run: every program of the F1b family, every node of
	// it, every path
	ctx.Bound("START-AT", "F1b programs (3 nodes, <=3 statements, line/opts/jump/stop), every node as starting point through a host-built snapshot, every path of <=8 steps")
	part(ctx, "START-AT", -1, func(c *explore.Chooser) {
		g := &progGen{c: c, rem: 3, kinds: []string{"line", "opts", "jump", "stop"}, maxDepth: 1, maxOpts: 2, maxCl: 1, conds: condsF}
		p := g.program(3)
		if len(p.Nodes) < 2 {
			return
		}
		start := p.Nodes[c.Choose(len(p.Nodes), "start-node")]
		if !c.Mine() {
			return
		}
		srcs := yc.Render(p, nil)
		if _, div := yc.ModelPaths(p, stdHost, wo); div {
			ctx.Skip("jump cycle that never yields (no implementation can return)")
			return
		}
		x, e := newC07Runner("R", p, srcs, stdHost)
		if x == nil {
			ctx.HarnessError("START-AT: %s", e)
			return
		}
		ctx.Current("START-AT " + start.Title + ": " + scriptOf(srcs))
		fail := func(detail string) {
			ctx.Violation(report.Violation{Clause: "start-at-node", Witness: "start at " + start.Title + " :: " + scriptOf(srcs), Detail: detail + " -- operations: " + strings.Join(x.trace, " | "),
				Choices: c.Choices(), Part: "START-AT", Extra: map[string]any{"scripts": srcs, "operations": x.trace}})
		}
		// the snapshot holds the node's name and the host's own variable; no visit counts (nil)
		snap := &ysgo.Snapshot{CurrentNode: start.Title, Variables: map[string]variable.Value{"f": *variable.NewBoolean(false)}}
		cs := &c07Snap{real: snap, cp: yc.Checkpoint{Node: start.Title, Vars: map[string]yc.Value{"f": yc.Bool(false)}, Visits: map[string]int{}}, frozen: dump.String(snap), from: "the host"}
		if d := x.restore(cs); d != "" {
			if strings.Contains(d, "RestoreAt of a snapshot of the same script failed") {
				ctx.Skip("a host-built snapshot without visit counts was refused with an error")
				return
			}
			fail(d)
			return
		}
		ctx.AddEvals(1, 1)
		ctx.AddTraces(1)
		for i := 0; i < 8; i++ {
			d := x.step(c.Choose(x.choices(), "choice"))
			if d == "HORIZON" {
				break
			}
			ctx.AddTransitions(1)
			ctx.AddStates(1)
			if d != "" {
				fail(d)
				return
			}
			if x.prev != nil && x.prev.K == yc.OEnd {
				break
			}
		}
	})

	// R: distribution of nodes over readers; start node = first node of the first reader
	ctx.Bound("R", "1..3 nodes with <=2 statements (line/jump/stop), every composition of the node list into readers")
	part(ctx, "R", -1, func(c *explore.Chooser) {
		g := &progGen{c: c, rem: 2, kinds: []string{"line", "jump", "stop"}, maxDepth: 0, conds: condsF}
		p := g.program(3)
		comps := compositions(len(p.Nodes))
		p.Split = comps[c.Choose(len(comps), "composition")]
		if !c.Mine() {
			return
		}
		walkProgram(ctx, c, "R", p, stdHost, wo, nil)
	})

	// ARGS: the argument of Next has no effect unless the previous element was an option group:
	// full product of arguments over every non-choice step
	woArgs := wo
	woArgs.ArgProduct = true
	woArgs.MaxSteps = 6
	ctx.Bound("ARGS", "<=2 statements, one node + target, every argument in {0,1,7,-1} at every step that does not follow an option group")
	part(ctx, "ARGS", -1, func(c *explore.Chooser) {
		g := &progGen{c: c, rem: 2, kinds: []string{"line", "opts", "if", "jump", "stop"}, maxDepth: 1, maxOpts: 2, maxCl: 1, conds: condsF, extraTargets: []string{"Z"}}
		p := g.program(1)
		p.Nodes = append(p.Nodes, &yc.Node{Title: "Z", Body: []*yc.Stmt{yc.Line("inZ")}})
		if !c.Mine() {
			return
		}
		walkProgram(ctx, c, "ARGS", p, stdHost, woArgs, nil)
	})
}
