// Package checks holds one exhaustive bounded check per property.
package checks

import (
	"fmt"
	"runtime/debug"
	"sort"
	"time"

	"github.com/remieven/ysgo/verifx/internal/explore"
	"github.com/remieven/ysgo/verifx/internal/report"
)

// Check describes how a property is explored.
type Check struct {
	Meta             report.Meta
	Workers          int // 0 = one per core (max 16)
	ProcsPerWorker   int // GOMAXPROCS of each worker (default 2)
	QuickBudget      time.Duration
	ThoroughBudget   time.Duration
	RacePass         bool // the driver also runs the free-running -race binary (VERIF_RACE_BIN)
	CrashIsViolation bool // a fatal crash / hang of the code under test on a generated case violates the property
	Run              func(ctx *report.Ctx)
}

// Registry maps property ids to checks.
var Registry = map[string]*Check{}

func register(c *Check) {
	if c.Meta.Level == "" {
		c.Meta.Level = "model_checking"
	}
	Registry[c.Meta.Property] = c
}

// IDs lists the registered property ids.
func IDs() []string {
	var ids []string
	for id := range Registry {
		ids = append(ids, id)
	}
	sort.Strings(ids)
	return ids
}

// part runs one named sub-exploration of a check under the explorer, sharded over the workers,
// or - in replay mode - only the recorded case of the recorded part.
func part(ctx *report.Ctx, name string, devBudget int, f func(c *explore.Chooser)) {
	opts := explore.Options{ShardIndex: ctx.ShardIndex, ShardCount: ctx.ShardCount, Budget: devBudget, Deadline: ctx.Deadline}
	if ctx.Replay != nil {
		if ctx.Replay.Part != name {
			return
		}
		opts.Fixed = ctx.Replay.Choices
		if opts.Fixed == nil {
			opts.Fixed = []int{}
		}
	} else if ctx.Expired() {
		ctx.Capped("deadline before part " + name)
		return
	}
	defer func() {
		if r := recover(); r != nil {
			if d, ok := r.(explore.Divergence); ok {
				ctx.HarnessError("part %s: %v", name, d)
				return
			}
			ctx.HarnessError("part %s: harness panic: %v\n%s", name, r, debug.Stack())
		}
	}()
	st := explore.Run(opts, f)
	reason := ""
	if st.Capped {
		reason = fmt.Sprintf("part %s: %s after %d leaves", name, st.CapReason, st.Leaves)
	}
	ctx.Stats(st.Leaves, st.ChoicePoints, st.MaxDepth, st.Capped, reason)
}

// guard runs f and converts a panic of the code under test into a value.
func guard(f func()) (panicked any) {
	defer func() {
		if r := recover(); r != nil {
			if d, ok := r.(explore.Divergence); ok {
				panic(d)
			}
			panicked = fmt.Sprintf("%v", r)
		}
	}()
	f()
	return nil
}
