package checks

import (
	"fmt"
	"strings"
	"time"

	"github.com/remieven/ysgo/variable"
	"github.com/remieven/ysgo/verifx/internal/explore"
	"github.com/remieven/ysgo/verifx/internal/report"
	yc "github.com/remieven/ysgo/verifx/internal/yarncore"
)

func init() {
	register(&Check{
		Meta: report.Meta{
			Property: "C17",
			Rule: "every command <<name w1 .. wk>>, k<=3 (quick: full word alphabet for k<=2, reduced for k=3), names from {foo, iffy, settings, jumpy, callous, declared, localhost, enumerate, caseload, stopper, elsewhere, elseifx, endiffy, é, x1, stop, wait (a host handler registered under the name of the stock command)}, " +
				"words from {abc, é, true, false, 1, 007, -2, 3.5, -0.5, +3, inf, nan, Infinity, 0x10, True, 1., .5, -, 1.2.3, {1+1}, {\"s t\"}, {true}, {$v}, 2147483648, 9223372036854775807, 9223372036854775808, 18446744073709551615, -10000000000000000000, a 30-digit integer, 0.30000000000000004, 1.14, -0, 0.0, 00}, separators from {one space, three spaces, tab, space-tab-space, U+3000, U+00A0, vertical tab, U+2003 + space, leading / trailing space}; " +
				"handlers registered with raw AddCommand record their typed arguments; each name also unregistered, and a handler registered under \"stop\"; sequences of 2-3 commands (registered and unregistered ones) in one dialogue; loop: every command of 1-2 arguments from 8 (compound) inline expressions over variables, executed three times in a jump loop while the variables change; oracle: exactly one invocation of the handler of name with the typed list the property prescribes; " +
				"a case is one command statement in one host configuration; non-trivial = at least one argument or a keyword-prefixed name",
			StatesMean:  "distinct (command statement, host configuration) cases; transitions = real Next calls",
			Assumptions: []string{"a decimal literal is what the language's grammar calls a number (digits, optionally a dot and digits), optionally negative: 1. and .5 are words; 1e3 is not generated", "a word directly adjacent to an inline expression is not generated", "sequences: after the error of an unregistered command the dialogue continues with the following statement"},
		},
		QuickBudget: 180 * time.Second, ThoroughBudget: 12 * time.Minute, CrashIsViolation: true,
		Run: runC17,
	})
}

func runC17(ctx *report.Ctx) {
	names := []string{"foo", "iffy", "settings", "jumpy", "callous", "declared", "localhost", "enumerate", "caseload", "stopper", "elsewhere", "elseifx", "endiffy", "é", "x1", "stop",
		"wait"} // the name of the stock command: a handler the host registers under it is the handler of that name
	type word struct {
		w string
		e *yc.Expr
	}
	words := []word{{w: "abc"}, {w: "é"}, {w: "true"}, {w: "false"}, {w: "1"}, {w: "007"}, {w: "-2"}, {w: "3.5"}, {w: "-0.5"}, {w: "+3"},
		{w: "inf"}, {w: "nan"}, {w: "Infinity"}, {w: "0x10"}, {w: "True"}, {w: "1."}, {w: ".5"}, {w: "-"}, {w: "1.2.3"},
		{e: yc.EBinary("+", yc.ENumber(1), yc.ENumber(1))}, {e: yc.EString("s t")}, {e: yc.EBoolean(true)}, {e: yc.EVariable("v")},
		// decimal literals beyond the integer ranges, long fractions, zero forms
		{w: "2147483648"}, {w: "9223372036854775807"}, {w: "9223372036854775808"}, {w: "18446744073709551615"}, {w: "-10000000000000000000"}, {w: "123456789012345678901234567890"},
		{w: "0.30000000000000004"}, {w: "1.14"}, {w: "-0"}, {w: "0.0"}, {w: "00"}}
	reduced := []word{words[0], words[2], words[4], words[6], words[10], words[15], words[19], words[20]}
	seps := []string{" ", "   ", "\t", " \t ", "\u3000", "\u00a0", "\v", "\u2003 "} // white space is what Unicode calls white space
	var cmds []yc.CmdSpec
	for _, n := range names {
		cmds = append(cmds, yc.CmdSpec{Name: n})
	}
	hostAll := &yc.HostSpec{Cmds: cmds, Vars: map[string]yc.Value{"v": yc.Num(9)}}
	hostNone := &yc.HostSpec{Vars: map[string]yc.Value{"v": yc.Num(9)}}
	// sequences: two or three commands one after the other in one dialogue (registered, unregistered, stop)
	seqCmds := []*yc.Stmt{yc.Command("foo", yc.CmdArg{Word: "1"}), yc.Command("nocmd"), yc.Command("othernocmd", yc.CmdArg{Word: "2"}), yc.Command("iffy", yc.CmdArg{E: yc.EVariable("v")}), yc.Command("é")}
	part(ctx, "sequences", -1, func(c *explore.Chooser) {
		n := 2 + c.Choose(2, "len")
		var body []*yc.Stmt
		for i := 0; i < n; i++ {
			body = append(body, seqCmds[c.Choose(len(seqCmds), "cmd")], yc.Line(fmt.Sprintf("after%d", i)))
		}
		if !c.Mine() {
			return
		}
		p := &yc.Program{Nodes: []*yc.Node{{Title: "A", Body: body}}}
		hs := &yc.HostSpec{Cmds: []yc.CmdSpec{{Name: "foo"}, {Name: "iffy"}, {Name: "é"}}, Vars: map[string]yc.Value{"v": yc.Num(9)}}
		srcs := yc.Render(p, nil)
		ctx.Current("sequences: " + srcs[0])
		// errors do not end the comparison here: after an unknown command the dialogue goes on with the next statement
		mm, wst := walkThroughErrors(p, srcs, hs, 3*n+2)
		ctx.AddEvals(1, 1)
		ctx.AddStates(1)
		ctx.AddTransitions(wst)
		ctx.AddTraces(1)
		if mm != "" {
			ctx.Violation(report.Violation{Clause: "command-sequence", Witness: "cmds:" + strings.ReplaceAll(srcs[0], "\n", " / "), Detail: mm, Choices: c.Choices(), Part: "sequences", Extra: map[string]any{"scripts": srcs}})
		}
	})
	// two-runners: two runners of one script in one process, each with its own registrations (raw or converted, under one,
	// both or none of the two names, in every order of creation and registration): a command reaches the handler
	// registered under its name on the runner that executes it - and no other; a name not registered there is an error
	part(ctx, "two-runners", -1, func(c *explore.Chooser) {
		type side struct {
			converted bool
			names     int // bit 0: ping, bit 1: pong
			log       []string
			dr        *yc.Real
		}
		var sides [2]*side
		for i := range sides {
			sides[i] = &side{converted: c.Choose(2, "registration-route") == 1, names: c.Choose(4, "registered-names")}
		}
		order := c.Choose(3, "order")
		if !c.Mine() {
			return
		}
		script := "title: A\n---\n<<ping 1 a>>\nl1\n<<pong 2 b>>\nl2\n===\n"
		w := fmt.Sprintf("two runners of <<ping 1 a>> l1 <<pong 2 b>> l2: first {converted=%v names=%02b} second {converted=%v names=%02b} order %d", sides[0].converted, sides[0].names, sides[1].converted, sides[1].names, order)
		ctx.Current("two-runners: " + w)
		create := func(i int) bool {
			r, err, pan := yc.NewReal([]string{script}, "abc", nil)
			if err != nil || pan != "" {
				ctx.HarnessError("C17: harness script does not load: %v %s", err, pan)
				return false
			}
			sides[i].dr = r
			return true
		}
		register := func(i int) {
			sd := sides[i]
			for bit, name := range []string{"ping", "pong"} {
				if sd.names&(1<<bit) == 0 {
					continue
				}
				tag := fmt.Sprintf("runner%d:%s", i, name)
				if sd.converted {
					sd.dr.DR.ConvertAndAddCommand(name, func(n int, word string) { sd.log = append(sd.log, fmt.Sprintf("%s(%d,%s)", tag, n, word)) })
				} else {
					sd.dr.DR.AddCommand(name, func(args []*variable.Value) <-chan error {
						sd.log = append(sd.log, fmt.Sprintf("%s(%s)", tag, yc.ArgsString(yc.RealArgs(args))))
						ch := make(chan error, 1)
						ch <- nil
						return ch
					})
				}
			}
		}
		switch order {
		case 0:
			if !create(0) {
				return
			}
			register(0)
			if !create(1) {
				return
			}
			register(1)
		case 1:
			if !create(0) || !create(1) {
				return
			}
			register(0)
			register(1)
		default:
			if !create(1) {
				return
			}
			register(1)
			if !create(0) {
				return
			}
			register(0)
		}
		ctx.AddEvals(1, 1)
		ctx.AddStates(1)
		ctx.AddTraces(1)
		fail := func(detail string) {
			ctx.Violation(report.Violation{Clause: "command-other-runner", Witness: w, Detail: detail, Choices: c.Choices(), Part: "two-runners", Extra: map[string]any{"scripts": []string{script}}})
		}
		// the two runners are stepped alternately; a converted handler runs in a goroutine: poll until it has completed
		next := func(sd *side) yc.RealObs {
			for tries := 0; ; tries++ {
				ro := sd.dr.Next(0)
				ctx.AddTransitions(1)
				if !ro.Waiting || tries > 200000 {
					return ro
				}
				time.Sleep(10 * time.Microsecond)
			}
		}
		for step, name := range []string{"ping", "pong"} {
			for i, sd := range sides {
				ro := next(sd)
				if ro.Panic != "" {
					fail(fmt.Sprintf("runner %d: Next panicked at <<%s>>: %s", i, name, ro.Panic))
					return
				}
				registered := sd.names&(1<<step) != 0
				isErr := ro.K == yc.OError
				if isErr {
					ro = next(sd)
				}
				want := fmt.Sprintf("l%d", step+1)
				if ro.K != yc.OLine || ro.Text != want {
					fail(fmt.Sprintf("runner %d: after <<%s>> expected the line %s, got %s", i, name, want, ro.String()))
					return
				}
				if registered == isErr {
					fail(fmt.Sprintf("runner %d: <<%s>> registered on this runner: %v, Next returned an error: %v", i, name, registered, isErr))
					return
				}
			}
		}
		for i, sd := range sides {
			var want []string
			for bit, name := range []string{"ping", "pong"} {
				if sd.names&(1<<bit) == 0 {
					continue
				}
				args := [][2]string{{"1", "a"}, {"2", "b"}}[bit]
				if sd.converted {
					want = append(want, fmt.Sprintf("runner%d:%s(%s,%s)", i, name, args[0], args[1]))
				} else {
					want = append(want, fmt.Sprintf("runner%d:%s(%s)", i, name, yc.ArgsString([]yc.Value{yc.Num(float64(bit + 1)), yc.Str(args[1])})))
				}
			}
			if strings.Join(sd.log, ";") != strings.Join(want, ";") {
				fail(fmt.Sprintf("runner %d: handler invocations expected [%s], got [%s]", i, strings.Join(want, ";"), strings.Join(sd.log, ";")))
				return
			}
		}
	})
	// loop: a command whose arguments are (compound) inline expressions over variables, executed three times by one
	// runner (a node re-entered through a jump) while the variables change: the handler gets the values of now
	loopArgs := []*yc.Expr{yc.EVariable("v"), yc.EBinary("*", yc.EVariable("v"), yc.ENumber(2)), yc.ENegate(yc.EVariable("v")), yc.ENotOf(yc.EVariable("b")),
		yc.EBinary("+", yc.EString("r"), yc.EVariable("s")), yc.EBinary("+", yc.EBinary("+", yc.EVariable("v"), yc.ENumber(1)), yc.EVariable("v")), yc.EBinary(">", yc.EVariable("v"), yc.ENumber(9)), yc.ENumber(4)}
	part(ctx, "loop", -1, func(c *explore.Chooser) {
		k := 1 + c.Choose(2, "nargs")
		st := &yc.Stmt{K: yc.SCommand, Cmd: "foo"}
		for i := 0; i < k; i++ {
			if c.Choose(4, "literal-word") == 3 {
				st.CmdArgs = append(st.CmdArgs, yc.CmdArg{Word: "w"})
				continue
			}
			st.CmdArgs = append(st.CmdArgs, yc.CmdArg{E: loopArgs[c.Choose(len(loopArgs), "expr")]})
		}
		if !c.Mine() {
			return
		}
		p := &yc.Program{Nodes: []*yc.Node{{Title: "A", Body: []*yc.Stmt{st,
			yc.Set("v", "=", yc.EBinary("+", yc.EVariable("v"), yc.ENumber(1))), yc.Set("b", "=", yc.ENotOf(yc.EVariable("b"))), yc.Set("s", "=", yc.EBinary("+", yc.EVariable("s"), yc.EString("x"))),
			yc.Line("again"), yc.Jump("A")}}}}
		hs := &yc.HostSpec{Cmds: []yc.CmdSpec{{Name: "foo"}}, Vars: map[string]yc.Value{"v": yc.Num(9), "b": yc.Bool(true), "s": yc.Str("a")}}
		srcs := yc.Render(p, nil)
		cmdSrc := strings.Split(srcs[0], "\n")[2]
		ctx.Current("loop:" + cmdSrc)
		mm, wst := yc.Walk(p, srcs, hs, yc.WalkOpts{MaxSteps: 6, MaxJumps: 2, StrictErrors: true, CompareLog: true})
		ctx.AddEvals(1, 1)
		ctx.AddStates(1)
		ctx.AddTransitions(wst.Steps)
		ctx.AddTraces(1)
		if mm != nil {
			ctx.Violation(report.Violation{Clause: "command-loop-" + mm.Clause, Witness: "cmd:" + cmdSrc + " executed three times while its variables change",
				Detail: fmt.Sprintf("%s; observed trace %v", mm.Detail, mm.Trace), Choices: c.Choices(), Part: "loop", Extra: map[string]any{"scripts": srcs, "go_test": goTestFor(srcs, "abc", mm.Args, mm.Detail)}})
		}
	})
	maxK := report.Pick(ctx, 3, 4)
	part(ctx, "commands", -1, func(c *explore.Chooser) {
		name := names[c.Choose(len(names), "name")]
		k := c.Choose(maxK+1, "nargs")
		alphabet := words
		if k == 3 {
			alphabet = report.Pick(ctx, reduced, words)
		}
		if k == 4 {
			alphabet = reduced
		}
		st := &yc.Stmt{K: yc.SCommand, Cmd: name}
		for i := 0; i < k; i++ {
			w := alphabet[c.Choose(len(alphabet), "word")]
			st.CmdArgs = append(st.CmdArgs, yc.CmdArg{Word: w.w, E: w.e})
		}
		layout := c.Choose(len(seps)+2, "spacing")
		registered := c.Choose(2, "registered") == 0
		if name == "wait" && !registered {
			return // without a host handler <<wait n>> is the stock command (C10's subject): it would really sleep
		}
		if !c.Mine() {
			return
		}
		switch {
		case layout < len(seps):
			for i := 0; i < k; i++ {
				st.CmdSeps = append(st.CmdSeps, seps[layout])
			}
		case layout == len(seps):
			st.CmdLead = "  "
		default:
			st.CmdTrail = " \t"
		}
		p := &yc.Program{Nodes: []*yc.Node{{Title: "A", Body: []*yc.Stmt{st, yc.Line("end")}}}}
		srcs := yc.Render(p, nil)
		cmdSrc := strings.Split(srcs[0], "\n")[2]
		hs := hostAll
		cfg := "registered"
		if !registered {
			hs, cfg = hostNone, "unregistered"
		}
		ctx.Current("cmd:" + cmdSrc + " " + cfg)
		mm, wst := yc.Walk(p, srcs, hs, yc.WalkOpts{MaxSteps: 3, StrictErrors: true, CompareLog: true})
		nt := k > 0 || name != "foo"
		ctx.AddEvals(1, b2i(nt))
		ctx.AddStates(1)
		ctx.AddTransitions(wst.Steps)
		ctx.AddTraces(1)
		m := yc.NewMachine(p, hs.Model())
		for ob, i := m.Start(), 0; i < 3 && ob.K != yc.OEnd; ob, i = ob.Next(0), i+1 {
		}
		ctx.Outcome(strings.Join(m.Log, ";") + "|" + cfg)
		if mm != nil {
			ctx.Violation(report.Violation{Clause: "command-" + mm.Clause, Witness: "cmd:" + strings.ReplaceAll(cmdSrc, "\t", "\\t") + " (" + cfg + ")",
				Detail:  fmt.Sprintf("%s; observed trace %v", mm.Detail, mm.Trace),
				Choices: c.Choices(), Part: "commands", Extra: map[string]any{"scripts": srcs, "go_test": goTestFor(srcs, "abc", mm.Args, mm.Detail)}})
		} else if ctx.WantSample() && k == 3 {
			ctx.Sample(map[string]any{"command": cmdSrc, "host": cfg, "expected_invocations": m.Log})
		}
	})
}

// walkThroughErrors steps the real runner and the model in lock-step and keeps going after errors:
// "an unregistered name is an error" - and the commands that follow must still reach their handlers.
func walkThroughErrors(p *yc.Program, srcs []string, hs *yc.HostSpec, maxSteps int) (string, int64) {
	m := yc.NewMachine(p, hs.Model())
	st := variable.NewInMemoryStorer()
	for k, v := range hs.Vars {
		if v.K == yc.VNum {
			st.SetNumberValue(k, v.N)
		}
	}
	r, err, pan := yc.NewReal(srcs, "abc", st)
	if err != nil || pan != "" {
		return fmt.Sprintf("script does not load: %v %s", err, pan), 0
	}
	var rlog []string
	hs.Install(r.DR, &rlog)
	mo := m.Start()
	var trace []string
	steps := int64(0)
	for i := 0; i < maxSteps; i++ {
		ro := r.Next(0)
		steps++
		trace = append(trace, ro.String())
		if d := yc.Diff(mo, ro, yc.Flags{}); d != "" {
			return fmt.Sprintf("step %d: %s; observed %v", i, d, trace), steps
		}
		if a, b := strings.Join(m.Log, ";"), strings.Join(rlog, ";"); a != b {
			return fmt.Sprintf("step %d: handler invocations expected [%s], got [%s]", i, a, b), steps
		}
		if mo.K == yc.OEnd {
			break
		}
		mo = mo.Next(0)
	}
	return "", steps
}
