package checks

import (
	"fmt"
	"strings"
	"time"

	"github.com/remieven/ysgo/verifx/internal/explore"
	"github.com/remieven/ysgo/verifx/internal/report"
	yc "github.com/remieven/ysgo/verifx/internal/yarncore"
)

func init() {
	register(&Check{
		Meta: report.Meta{
			Property: "C17",
			Rule: "every command <<name w1 .. wk>>, k<=3 (quick: full word alphabet for k<=2, reduced for k=3), names from {foo, iffy, settings, jumpy, callous, declared, localhost, enumerate, caseload, stopper, elsewhere, elseifx, endiffy, é, x1, stop}, " +
				"words from {abc, é, true, false, 1, 007, -2, 3.5, -0.5, +3, inf, nan, Infinity, 0x10, True, {1+1}, {\"s t\"}, {true}, {$v}}, separators from {one space, three spaces, tab, leading / trailing space}; " +
				"handlers registered with raw AddCommand record their typed arguments; each name also unregistered, and a handler registered under \"stop\"; oracle: exactly one invocation of the handler of name with the typed list the property prescribes; " +
				"a case is one command statement in one host configuration; non-trivial = at least one argument or a keyword-prefixed name",
			StatesMean:  "distinct (command statement, host configuration) cases; transitions = real Next calls",
			Assumptions: []string{"words whose status as decimal literal is debatable (1e3, .5, 5.) are not generated", "a word directly adjacent to an inline expression is not generated"},
		},
		QuickBudget: 70 * time.Second, ThoroughBudget: 12 * time.Minute, CrashIsViolation: true,
		Run: runC17,
	})
}

func runC17(ctx *report.Ctx) {
	names := []string{"foo", "iffy", "settings", "jumpy", "callous", "declared", "localhost", "enumerate", "caseload", "stopper", "elsewhere", "elseifx", "endiffy", "é", "x1", "stop"}
	type word struct {
		w string
		e *yc.Expr
	}
	words := []word{{w: "abc"}, {w: "é"}, {w: "true"}, {w: "false"}, {w: "1"}, {w: "007"}, {w: "-2"}, {w: "3.5"}, {w: "-0.5"}, {w: "+3"},
		{w: "inf"}, {w: "nan"}, {w: "Infinity"}, {w: "0x10"}, {w: "True"},
		{e: yc.EBinary("+", yc.ENumber(1), yc.ENumber(1))}, {e: yc.EString("s t")}, {e: yc.EBoolean(true)}, {e: yc.EVariable("v")}}
	reduced := []word{words[0], words[2], words[4], words[6], words[10], words[15], words[16]}
	seps := []string{" ", "   ", "\t", " \t "}
	var cmds []yc.CmdSpec
	for _, n := range names {
		cmds = append(cmds, yc.CmdSpec{Name: n})
	}
	hostAll := &yc.HostSpec{Cmds: cmds, Vars: map[string]yc.Value{"v": yc.Num(9)}}
	hostNone := &yc.HostSpec{Vars: map[string]yc.Value{"v": yc.Num(9)}}
	maxK := 3
	part(ctx, "commands", -1, func(c *explore.Chooser) {
		name := names[c.Choose(len(names), "name")]
		k := c.Choose(maxK+1, "nargs")
		alphabet := words
		if k == 3 || (k == 2 && false) {
			alphabet = report.Pick(ctx, words, words)
			_ = reduced
		}
		st := &yc.Stmt{K: yc.SCommand, Cmd: name}
		for i := 0; i < k; i++ {
			w := alphabet[c.Choose(len(alphabet), "word")]
			st.CmdArgs = append(st.CmdArgs, yc.CmdArg{Word: w.w, E: w.e})
		}
		layout := c.Choose(len(seps)+2, "spacing")
		registered := c.Choose(2, "registered") == 0
		if !c.Mine() {
			return
		}
		switch {
		case layout < len(seps):
			for i := 0; i < k; i++ {
				st.CmdSeps = append(st.CmdSeps, seps[layout])
			}
		case layout == len(seps):
			st.CmdLead = "  "
		default:
			st.CmdTrail = " \t"
		}
		p := &yc.Program{Nodes: []*yc.Node{{Title: "A", Body: []*yc.Stmt{st, yc.Line("end")}}}}
		srcs := yc.Render(p, nil)
		cmdSrc := strings.Split(srcs[0], "\n")[2]
		hs := hostAll
		cfg := "registered"
		if !registered {
			hs, cfg = hostNone, "unregistered"
		}
		ctx.Current("cmd:" + cmdSrc + " " + cfg)
		mm, wst := yc.Walk(p, srcs, hs, yc.WalkOpts{MaxSteps: 3, StrictErrors: true, CompareLog: true})
		nt := k > 0 || name != "foo"
		ctx.AddEvals(1, b2i(nt))
		ctx.AddStates(1)
		ctx.AddTransitions(wst.Steps)
		ctx.AddTraces(1)
		m := yc.NewMachine(p, hs.Model())
		for ob, i := m.Start(), 0; i < 3 && ob.K != yc.OEnd; ob, i = ob.Next(0), i+1 {
		}
		ctx.Outcome(strings.Join(m.Log, ";") + "|" + cfg)
		if mm != nil {
			ctx.Violation(report.Violation{Clause: "command-" + mm.Clause, Witness: "cmd:" + strings.ReplaceAll(cmdSrc, "\t", "\\t") + " (" + cfg + ")",
				Detail:  fmt.Sprintf("%s; observed trace %v", mm.Detail, mm.Trace),
				Choices: c.Choices(), Part: "commands", Extra: map[string]any{"scripts": srcs, "go_test": goTestFor(srcs, "abc", mm.Args, mm.Detail)}})
		} else if ctx.WantSample() && k == 3 {
			ctx.Sample(map[string]any{"command": cmdSrc, "host": cfg, "expected_invocations": m.Log})
		}
	})
}
