package checks

import (
	"fmt"
	"math"
	"strconv"
	"strings"
	"time"

	"github.com/remieven/ysgo/variable"
	"github.com/remieven/ysgo/verifx/internal/explore"
	"github.com/remieven/ysgo/verifx/internal/report"
	yc "github.com/remieven/ysgo/verifx/internal/yarncore"
)

func init() {
	register(&Check{
		Meta: report.Meta{
			Property: "C04",
			Rule: "every line assembled from <=3 parts (quick) / <=4 parts (thorough) of the full part alphabet, and <=4 / <=5 parts of a reduced alphabet (one representative per class): text chunks (letters, digit, inner space, each of < > / } = - : ! ? . , ' \" ( ) $ as single characters, multi-byte chunks), " +
				"every escapable character escaped (\\\\ \\< \\> \\{ \\} \\# \\/ \\[ \\]), inline expressions of each type (integral and fractional numbers with unambiguous display, booleans, strings incl. empty and with spaces, variables), x 0-2 trailing hashtags x optional trailing comment x optional trailing space; " +
				"the same for option labels with every assignment of conditions {none,true,false,$b,$f} to groups of 1-3 options; lines and options re-rendered in a loop with changing variable values; a line shown right after a line or option whose preparation failed (expression error after some text, markup error); constructive oracle (concatenation of resolved parts, trimmed; tags in order; Disabled iff condition false); " +
				"a case is one line / option group; non-trivial = contains an escape, an expression, a tag, a comment or a condition",
			StatesMean:  "distinct generated lines / option groups; transitions = real Next calls",
			Assumptions: []string{"unescaped [ and ] are markup (C13) and are not generated", "surrounding whitespace includes the Unicode spaces U+3000 and U+00A0 (they are stripped like ASCII spaces)", "number display compared only where the property fixes it (magnitude in [1e-4,1e15) or zero)", "canonical layout: a line cannot start with whitespace"},
		},
		QuickBudget: 180 * time.Second, ThoroughBudget: 14 * time.Minute, CrashIsViolation: true,
		Run: runC04,
	})
}

type linePart struct {
	p     yc.Part
	class string
}

func lit(s string) linePart         { return linePart{yc.Part{Src: s, Want: s}, "text"} }
func esc(src, want string) linePart { return linePart{yc.Part{Src: src, Want: want}, "escape"} }
func inl(e *yc.Expr) linePart       { return linePart{yc.Part{E: e}, "expr"} }

func c04Parts() (full, reduced []linePart) {
	full = []linePart{
		lit("a"), lit("ab c"), lit("7"), lit(" "), lit("<"), lit(">"), lit("/"), lit("}"), lit("="), lit("-"), lit(":"), lit("!"), lit("?"), lit("."), lit(","),
		lit("'"), lit("\""), lit("("), lit(")"), lit("$"), lit("é"), lit("日本"), lit("😀"), lit("\u3000"), lit("\u00a0"),
		esc(`\\`, `\`), esc(`\<`, `<`), esc(`\>`, `>`), esc(`\{`, `{`), esc(`\}`, `}`), esc(`\#`, `#`), esc(`\/`, `/`), esc(`\[`, `[`), esc(`\]`, `]`),
		inl(yc.ENumber(1)), inl(yc.ENumber(2.5)), inl(yc.EBinary("+", yc.ENumber(0.1), yc.ENumber(0.2))), inl(yc.EBinary("/", yc.ENumber(1), yc.ENumber(4))),
		inl(yc.ENumber(-3)), inl(yc.ENumber(-0.5)), inl(yc.ENumber(-7.5)), inl(yc.EBinary("-", yc.EBinary("/", yc.ENumber(1), yc.ENumber(3)), yc.ENumber(1))), inl(yc.ENumber(3.0000000001)), inl(yc.ENumber(100000)), inl(yc.ENumber(0.0001)), inl(yc.ENumber(123456789012)), inl(yc.EBinary("/", yc.ENumber(10), yc.ENumber(4))),
		inl(yc.EBoolean(true)), inl(yc.EBoolean(false)), inl(yc.EString("s")), inl(yc.EString("")), inl(yc.EString("x y")), inl(yc.EString(" lead")),
		inl(yc.EVariable("n")), inl(yc.EVariable("b")), inl(yc.EVariable("s")),
	}
	reduced = []linePart{lit("a"), lit(" "), lit("\u3000"), lit("<"), lit("/"), lit("-"), lit("é"), esc(`\\`, `\`), esc(`\#`, `#`), esc(`\[`, `[`), esc(`\{`, `{`),
		inl(yc.ENumber(2.5)), inl(yc.EBoolean(true)), inl(yc.EString("x y")), inl(yc.EVariable("n"))}
	return
}

var c04Host = &yc.HostSpec{Vars: map[string]yc.Value{"n": yc.Num(42), "b": yc.Bool(true), "s": yc.Str("str"), "f": yc.Bool(false)}}

// writable says whether the literal source of the line can be written down as one line statement:
// the concatenation must not create a token the parts do not contain.
func writable(src string, optionLabel bool) bool {
	if strings.Contains(src, "<<") || strings.Contains(src, "//") {
		return false
	}
	if !optionLabel {
		if strings.HasPrefix(src, "->") || strings.HasPrefix(src, "===") || strings.HasPrefix(src, "---") || strings.HasPrefix(src, " ") {
			return false
		}
	}
	return strings.TrimSpace(src) != "" || strings.Contains(src, "{")
}

func litSource(ls *yc.LineSpec) string {
	var b strings.Builder
	for _, p := range ls.Parts {
		if p.E != nil {
			b.WriteString("{}")
		} else {
			b.WriteString(p.Src)
		}
	}
	return b.String()
}

func c04Line(ctx *report.Ctx, c *explore.Chooser, partName string, ls *yc.LineSpec, nontrivial bool) {
	p := &yc.Program{Nodes: []*yc.Node{{Title: "A", Body: []*yc.Stmt{yc.LineOf(ls), yc.Line("end")}}}}
	srcs := yc.Render(p, nil)
	lineSrc := strings.Split(srcs[0], "\n")[2]
	ctx.Current(partName + ": " + lineSrc)
	mm, st := yc.Walk(p, srcs, c04Host, yc.WalkOpts{MaxSteps: 3, StrictErrors: true})
	ctx.AddEvals(1, b2i(nontrivial))
	ctx.AddStates(1)
	ctx.AddTransitions(st.Steps)
	ctx.AddTraces(1)
	for o := range st.Outcomes {
		ctx.Outcome(o)
	}
	if mm != nil {
		ctx.Violation(report.Violation{Clause: "line-" + mm.Clause, Witness: "line:" + lineSrc, Detail: fmt.Sprintf("%s; observed trace %v", mm.Detail, mm.Trace),
			Choices: c.Choices(), Part: partName, Extra: map[string]any{"scripts": srcs, "go_test": goTestFor(srcs, "abc", mm.Args, mm.Detail)}})
	} else if ctx.WantSample() && len(ls.Parts) >= 3 && len(ls.Tags) > 0 {
		ctx.Sample(map[string]any{"part": partName, "line": lineSrc})
	}
}

func b2i(b bool) int64 {
	if b {
		return 1
	}
	return 0
}

func runC04(ctx *report.Ctx) {
	full, reduced := c04Parts()
	tagSets := [][]string{nil, {"t1"}, {"t1", "é:x"}}
	genLine := func(c *explore.Chooser, alphabet []linePart, maxParts int, decorate bool) (*yc.LineSpec, bool, bool) {
		n := 1 + c.Choose(maxParts, "nparts")
		ls := &yc.LineSpec{}
		nontrivial := false
		for i := 0; i < n; i++ {
			lp := alphabet[c.Choose(len(alphabet), "part")]
			ls.Parts = append(ls.Parts, lp.p)
			if lp.class != "text" {
				nontrivial = true
			}
		}
		if decorate {
			ls.Tags = tagSets[c.Choose(len(tagSets), "tags")]
			if c.Choose(2, "comment") == 1 {
				ls.Comment = "note {x} #no"
			}
			if c.Choose(2, "trailing-space") == 1 {
				ls.Parts = append(ls.Parts, yc.Part{Src: "  ", Want: "  "})
			}
			nontrivial = nontrivial || len(ls.Tags) > 0 || ls.Comment != ""
		}
		return ls, nontrivial, writable(litSource(ls), false)
	}

	fullN := report.Pick(ctx, 3, 3)
	part(ctx, "lines-full-decorated", -1, func(c *explore.Chooser) {
		ls, nt, ok := genLine(c, full, fullN, true)
		if !ok {
			return
		}
		if !c.Mine() {
			return
		}
		c04Line(ctx, c, "lines-full-decorated", ls, nt)
	})
	plainN := report.Pick(ctx, 3, 4)
	part(ctx, "lines-full-plain", -1, func(c *explore.Chooser) {
		ls, nt, ok := genLine(c, full, plainN, false)
		if !ok || len(ls.Parts) <= fullN-0 && false {
			return
		}
		if !c.Mine() {
			return
		}
		c04Line(ctx, c, "lines-full-plain", ls, nt)
	})
	redN := report.Pick(ctx, 5, 6)
	part(ctx, "lines-reduced", -1, func(c *explore.Chooser) {
		ls, nt, ok := genLine(c, reduced, redN, false)
		if !ok || len(ls.Parts) <= plainN {
			return
		}
		if !c.Mine() {
			return
		}
		c04Line(ctx, c, "lines-reduced", ls, nt)
	})

	// option groups: labels, tags, conditions
	conds := []func() *yc.Expr{nil, func() *yc.Expr { return yc.EBoolean(true) }, func() *yc.Expr { return yc.EBoolean(false) },
		func() *yc.Expr { return yc.EVariable("b") }, func() *yc.Expr { return yc.EVariable("f") }}
	labelParts := []linePart{lit("o"), lit("x y"), lit("<"), esc(`\#`, `#`), esc(`\\`, `\`), inl(yc.EVariable("n")), inl(yc.EBoolean(false)), inl(yc.EString("q r")), lit("é")}
	part(ctx, "options", -1, func(c *explore.Chooser) {
		n := 1 + c.Choose(3, "noptions")
		var opts []*yc.Option
		ok := true
		var descr []string
		// label variety shrinks with the size of the group (quick tier) so that the product stays small
		maxParts, alphabet, tagChoices := 2, labelParts, 2
		switch {
		case n == 2:
			maxParts = report.Pick(ctx, 1, 2)
		case n == 3:
			maxParts, tagChoices = 1, 1
			alphabet = labelParts[:report.Pick(ctx, 2, 4)]
		}
		for i := 0; i < n; i++ {
			ls := &yc.LineSpec{}
			np := 1 + c.Choose(maxParts, "nparts")
			for j := 0; j < np; j++ {
				ls.Parts = append(ls.Parts, alphabet[c.Choose(len(alphabet), "part")].p)
			}
			if cf := conds[c.Choose(len(conds), "cond")]; cf != nil {
				ls.Cond = cf()
			}
			ls.Tags = tagSets[c.Choose(tagChoices, "tags")]
			if !writable(litSource(ls), true) {
				ok = false
			}
			opts = append(opts, &yc.Option{Line: ls, Body: []*yc.Stmt{yc.Line(fmt.Sprintf("body%d", i))}})
		}
		if !ok {
			return
		}
		if !c.Mine() {
			return
		}
		p := &yc.Program{Nodes: []*yc.Node{{Title: "A", Body: []*yc.Stmt{yc.Options(opts...), yc.Line("end")}}}}
		srcs := yc.Render(p, nil)
		for _, l := range strings.Split(srcs[0], "\n") {
			if strings.HasPrefix(l, "->") {
				descr = append(descr, l)
			}
		}
		w := strings.Join(descr, " | ")
		ctx.Current("options: " + w)
		mm, st := yc.Walk(p, srcs, c04Host, yc.WalkOpts{MaxSteps: 4, StrictErrors: true})
		ctx.AddEvals(1, 1)
		ctx.AddStates(1)
		ctx.AddTransitions(st.Steps)
		ctx.AddTraces(st.Paths)
		for o := range st.Outcomes {
			ctx.Outcome(o)
		}
		if mm != nil {
			ctx.Violation(report.Violation{Clause: "options-" + mm.Clause, Witness: "options:" + w, Detail: fmt.Sprintf("%s; observed trace %v", mm.Detail, mm.Trace),
				Choices: c.Choices(), Part: "options", Extra: map[string]any{"scripts": srcs, "go_test": goTestFor(srcs, "abc", mm.Args, mm.Detail)}})
		}
	})

	// after an error: a line (or option) whose inline expression fails after some text, then the next line:
	// whatever was assembled for the failed line must not show up in the line returned next
	failing := []*yc.LineSpec{
		{Parts: []yc.Part{{Src: "You own ", Want: "You own "}, {E: yc.EVariable("nope")}, {Src: " coins", Want: " coins"}}},
		{Parts: []yc.Part{{Src: "x ", Want: "x "}, {E: yc.EVariable("n")}, {Src: " y ", Want: " y "}, {E: yc.EBinary("+", yc.ENumber(1), yc.EString("a"))}}},
		{Parts: []yc.Part{{E: yc.EVariable("nope")}}},
		{Parts: []yc.Part{{Src: "[a]unterminated [b", Want: ""}}}, // markup error
	}
	// numbers: display forms over the whole range of magnitudes. Inside [1e-4, 1e15) the parts above compare the exact
	// text; outside, the property still says: an integral number is shown without a decimal point, any other number in
	// shortest round-trip decimal - both checked in a notation-independent way (the digits shown denote exactly the
	// number; an integral one contains no '.'; a non-integral one has the digits of the shortest representation)
	{
		var nums []float64
		add := func(x float64) {
			if !math.IsInf(x, 0) && !math.IsNaN(x) {
				nums = append(nums, x, -x)
			}
		}
		for k := 0; k <= 1023; k++ {
			if k <= 70 || k%64 == 0 || k == 1023 {
				add(math.Ldexp(1, k))
				if k <= 53 {
					add(math.Ldexp(1, k) - 1)
					add(math.Ldexp(1, k) + 1)
				}
			}
		}
		for k := 0; k <= 308; k++ {
			if k <= 25 || k%50 == 0 || k == 308 {
				add(math.Pow(10, float64(k)))
				add(3 * math.Pow(10, float64(k)))
				add(math.Pow(10, -float64(k)))
				add(1.5 * math.Pow(10, float64(k)))
			}
		}
		add(math.Nextafter(math.Ldexp(1, 63), 0))
		add(math.Nextafter(math.Ldexp(1, 63), math.Inf(1)))
		add(math.Nextafter(math.Ldexp(1, 31), 0))
		add(123456789012345678)
		add(1.0 / 3)
		add(2.0 / 3)
		add(0.1 + 0.2)
		add(math.MaxFloat64)
		add(math.SmallestNonzeroFloat64)
		add(4503599627370496.5)
		add(1e15 + 0.5)
		add(999999999999999.9)
		ctx.Bound("numbers_display_alphabet", len(nums))
		digitsOf := func(d string) string {
			d = strings.TrimLeft(d, "+-")
			if i := strings.IndexAny(d, "eE"); i >= 0 {
				d = d[:i]
			}
			d = strings.ReplaceAll(d, ".", "")
			return strings.Trim(d, "0")
		}
		part(ctx, "numbers", -1, func(c *explore.Chooser) {
			x := nums[c.Choose(len(nums), "number")]
			form := c.Choose(3, "form")
			if !c.Mine() {
				return
			}
			e := yc.ENumber(x)
			lit := yc.RenderExpr(e, nil)
			var script string
			switch form {
			case 0:
				script = "title: A\n---\nv={" + lit + "} w\n===\n"
			case 1:
				script = "title: A\n---\n-> o {" + lit + "} w\n===\n"
			case 2:
				script = "title: A\n---\n<<set $x = " + lit + ">>\nv={$x} w\n===\n"
			}
			ctx.Current("numbers: " + script)
			r, err, pan := yc.NewReal([]string{script}, "abc", nil)
			ctx.AddEvals(1, 1)
			ctx.AddStates(1)
			ctx.AddTransitions(1)
			ctx.AddTraces(1)
			fail := func(clause, detail string) {
				ctx.Violation(report.Violation{Clause: clause, Witness: fmt.Sprintf("number %s shown in %s", strconv.FormatFloat(x, 'g', -1, 64), []string{"a line", "an option", "a line through a variable"}[form]),
					Detail: detail, Choices: c.Choices(), Part: "numbers", Extra: map[string]any{"scripts": []string{script}}})
			}
			if err != nil || pan != "" {
				ctx.HarnessError("C04 numbers: script does not load: %v %s :: %q", err, pan, script)
				return
			}
			ro := r.Next(0)
			text := ro.Text
			if form == 1 && ro.K == yc.OOptions && len(ro.Opts) == 1 {
				text = "v=" + strings.TrimPrefix(ro.Opts[0].Text, "o ")
			} else if ro.K != yc.OLine {
				fail("number-display", "the line was not returned: "+ro.String())
				return
			}
			if !strings.HasPrefix(text, "v=") || !strings.HasSuffix(text, " w") {
				fail("number-display", fmt.Sprintf("text %q does not have the literal parts of the line around the number", text))
				return
			}
			d := strings.TrimSuffix(strings.TrimPrefix(text, "v="), " w")
			ctx.Outcome(fmt.Sprint(strings.ContainsAny(d, "eE"), strings.Contains(d, ".")))
			back, perr := strconv.ParseFloat(d, 64)
			if perr != nil || back != x {
				fail("number-display", fmt.Sprintf("the number is shown as %q, which does not denote it", d))
				return
			}
			if x == math.Trunc(x) {
				if strings.Contains(d, ".") {
					fail("number-display-integral", fmt.Sprintf("the integral number %s is shown with a decimal point: %q", strconv.FormatFloat(x, 'f', -1, 64), d))
				}
				return
			}
			if want := digitsOf(strconv.FormatFloat(x, 'g', -1, 64)); digitsOf(d) != want {
				fail("number-display-shortest", fmt.Sprintf("the number is shown as %q (digits %s); its shortest round-trip digits are %s", d, digitsOf(d), want))
			}
		})
	}

	// host-retype: the value shown is the value the storer holds now: the host overwrites the variable between two lines,
	// also with a value of another type (default in-memory storer, host-owned); a line and an option label show the new one
	part(ctx, "host-retype", -1, func(c *explore.Chooser) {
		vals := []yc.Value{yc.Num(20), yc.Num(-0.5), yc.Bool(false), yc.Bool(true), yc.Str("txt"), yc.Str("")}
		v1 := vals[c.Choose(len(vals), "first")]
		v2 := vals[c.Choose(len(vals), "second")]
		v3 := vals[c.Choose(len(vals), "third")]
		if !c.Mine() {
			return
		}
		show := func(tag string) *yc.LineSpec {
			return &yc.LineSpec{Parts: []yc.Part{{Src: tag + "=", Want: tag + "="}, {E: yc.EVariable("v")}, {Src: ".", Want: "."}}}
		}
		p := &yc.Program{Nodes: []*yc.Node{{Title: "A", Body: []*yc.Stmt{yc.LineOf(show("a")), yc.LineOf(show("b")),
			yc.Options(&yc.Option{Line: show("o1")}, &yc.Option{Line: show("o2"), Body: []*yc.Stmt{yc.LineOf(show("c"))}}), yc.LineOf(show("d"))}}}}
		srcs := yc.Render(p, nil)
		w := fmt.Sprintf("host-owned in-memory storer: $v = %s at creation, %s after the first line, %s after the second; every line and option label shows {$v}", v1, v2, v3)
		ctx.Current("host-retype: " + w)
		write := func(st variable.Storer, m *yc.Machine, v yc.Value) {
			switch v.K {
			case yc.VNum:
				st.SetNumberValue("v", v.N)
			case yc.VBool:
				st.SetBooleanValue("v", v.B)
			default:
				st.SetStringValue("v", v.S)
			}
			m.Store["v"] = v
		}
		mm, st := yc.Walk(p, srcs, &yc.HostSpec{Vars: map[string]yc.Value{"v": v1}}, yc.WalkOpts{MaxSteps: 8, StrictErrors: true, CompareStore: true,
			Host: func(ch *explore.Chooser, step int, m *yc.Machine, st variable.Storer) {
				switch step {
				case 0:
					write(st, m, v2)
				case 1:
					write(st, m, v3)
				}
			}, DevBudget: -1})
		ctx.AddEvals(st.Paths, st.Paths)
		ctx.AddStates(st.Steps)
		ctx.AddTransitions(st.Steps)
		ctx.AddTraces(st.Paths)
		if mm != nil {
			ctx.Violation(report.Violation{Clause: "host-retype-" + mm.Clause, Witness: w, Detail: fmt.Sprintf("%s; observed trace %v", mm.Detail, mm.Trace),
				Choices: c.Choices(), Part: "host-retype", Extra: map[string]any{"scripts": srcs}})
		}
	})
	// RESTORE-TWICE: what a line shows after a restore is what the restored state says - also after a second restore of the
	// same save value made after the dialogue has moved on (lines showing variables and visit counts; C07's exploration, small bounds)
	restoreExplore(ctx, "RESTORE-TWICE", c07Scripts(true)[2:3], c07Host, c07Bounds{pre: report.Pick(ctx, 2, 4), mid: 0, recv: 1, cont: report.Pick(ctx, 3, 5), keep: true})

	part(ctx, "after-error", -1, func(c *explore.Chooser) {
		f := failing[c.Choose(len(failing), "failing-line")]
		asOption := c.Choose(2, "failing-as-option") == 1
		nextAsOption := c.Choose(2, "next-as-option") == 1
		np := 1 + c.Choose(2, "nparts")
		next := &yc.LineSpec{}
		for i := 0; i < np; i++ {
			next.Parts = append(next.Parts, reduced[c.Choose(len(reduced), "part")].p)
		}
		if !c.Mine() {
			return
		}
		if !writable(litSource(next), nextAsOption) {
			return
		}
		if src := strings.TrimLeft(litSource(next), " \t"); strings.HasPrefix(src, `\[`) || strings.HasPrefix(src, `\]`) {
			return // the open known finding (a line starting with an escaped bracket does not load) is the subject of the line parts
		}
		var body []*yc.Stmt
		if asOption {
			body = append(body, yc.Options(&yc.Option{Line: f}), yc.Line("between"))
		} else {
			body = append(body, yc.LineOf(f))
		}
		if nextAsOption {
			body = append(body, yc.Options(&yc.Option{Line: next}))
		} else {
			body = append(body, yc.LineOf(next))
		}
		p := &yc.Program{Nodes: []*yc.Node{{Title: "A", Body: body}}}
		srcs := yc.Render(p, nil)
		ctx.Current("after-error: " + srcs[0])
		m := yc.NewMachine(p, c04Host.Model())
		wantText, _, _ := "", false, error(nil)
		{
			mm := yc.NewMachine(&yc.Program{Nodes: []*yc.Node{{Title: "A", Body: []*yc.Stmt{yc.LineOf(next)}}}}, c04Host.Model())
			wantText = mm.Start().Text
		}
		_ = m
		fr := yc.FreeWalk(srcs, yc.FreeOpts{MaxSteps: 5, NewStorer: func() variable.Storer {
			st := variable.NewInMemoryStorer()
			st.SetNumberValue("n", 42)
			st.SetBooleanValue("b", true)
			st.SetStringValue("s", "str")
			st.SetBooleanValue("f", false)
			return st
		}})
		ctx.AddEvals(1, 1)
		ctx.AddStates(1)
		ctx.AddTransitions(fr.Steps)
		ctx.AddTraces(fr.Paths)
		bad := ""
		switch {
		case fr.LoadErr != nil || fr.LoadPanic != "":
			bad = fmt.Sprintf("the script does not load: %v %s", fr.LoadErr, fr.LoadPanic)
		case fr.Panic != "":
			bad = fr.Panic
		case fr.Errors == 0:
			bad = "the failing line did not fail: " + tracesString(fr)
		default:
			// every text shown after the error must be one of the texts of the script: "between", the next line, or its option
			for _, tr := range fr.Traces {
				for _, el := range strings.Split(strings.SplitN(tr, " | ", 2)[0], " → ") {
					if strings.HasPrefix(el, "line[") || strings.HasPrefix(el, "options[") {
						if !strings.Contains(el, fmt.Sprintf("%q", wantText)) && !strings.Contains(el, "\"between\"") {
							bad = fmt.Sprintf("after the error the runner showed %s; the only texts of the script are \"between\" and %q", el, wantText)
						}
					}
				}
			}
		}
		if bad != "" {
			ctx.Violation(report.Violation{Clause: "line-after-error", Witness: "lines:" + strings.ReplaceAll(srcs[0], "\n", " / "), Detail: bad, Choices: c.Choices(), Part: "after-error", Extra: map[string]any{"scripts": srcs}})
		}
	})

	// re-rendering: the same line / option statement shown several times with other values
	rounds := report.Pick(ctx, 3, 5)
	shapes := []func() *yc.LineSpec{
		func() *yc.LineSpec { return &yc.LineSpec{Parts: []yc.Part{{E: yc.EVariable("n")}}} },
		func() *yc.LineSpec {
			return &yc.LineSpec{Parts: []yc.Part{{E: yc.EBinary("*", yc.EVariable("n"), yc.ENumber(1.5))}}}
		},
		func() *yc.LineSpec {
			return &yc.LineSpec{Parts: []yc.Part{{Src: "n=", Want: "n="}, {E: yc.EVariable("n")}}}
		},
		func() *yc.LineSpec {
			return &yc.LineSpec{Parts: []yc.Part{{E: yc.EVariable("n")}, {Src: " #", Want: ""}}, Tags: nil}
		},
		func() *yc.LineSpec { return &yc.LineSpec{Parts: []yc.Part{{E: yc.EVariable("b")}}} },
		func() *yc.LineSpec {
			return &yc.LineSpec{Parts: []yc.Part{{E: yc.EVariable("s")}, {E: yc.EVariable("n")}}}
		},
		func() *yc.LineSpec { return yc.TextLine("static") },
	}
	part(ctx, "rerender", -1, func(c *explore.Chooser) {
		mk := shapes[c.Choose(len(shapes), "shape")]
		if mk().Parts[len(mk().Parts)-1].Src == " #" {
			return // placeholder shape not used
		}
		asOption := c.Choose(2, "as-option") == 1
		withCond := asOption && c.Choose(2, "cond") == 1
		if !c.Mine() {
			return
		}
		var shown *yc.Stmt
		if asOption {
			ls := mk()
			if withCond {
				ls.Cond = yc.EVariable("b")
			}
			shown = yc.Options(&yc.Option{Line: ls}, &yc.Option{Line: yc.TextLine("other")})
		} else {
			shown = yc.LineOf(mk())
		}
		body := []*yc.Stmt{shown, yc.Set("n", "+=", yc.ENumber(1)), yc.Set("b", "=", yc.ENotOf(yc.EVariable("b"))),
			yc.Set("s", "+=", yc.EString("!")), yc.Jump("A")}
		p := &yc.Program{Nodes: []*yc.Node{{Title: "A", Body: body}}}
		walkProgram(ctx, c, "rerender", p, c04Host, yc.WalkOpts{MaxSteps: 20, MaxJumps: rounds, StrictErrors: true}, nil)
	})
}
