package checks

import (
	"fmt"
	"github.com/remieven/ysgo"
	"github.com/remieven/ysgo/variable"
	"math"
	"strconv"
	"strings"
	"time"

	"github.com/remieven/ysgo/verifx/internal/explore"
	"github.com/remieven/ysgo/verifx/internal/report"
	yc "github.com/remieven/ysgo/verifx/internal/yarncore"
)

func init() {
	register(&Check{
		Meta: report.Meta{
			Property: "C06",
			Rule: "a fault alphabet (ill-typed operation per operator, unknown variable / node / function / command, wrong argument count and type for every built-in and for host functions incl. converted ones, null, a no-result function used as a value, failing host handlers, " +
				"dice / random_range / round_places / numeric built-ins applied to every tuple over {0,-1,0.5,1,2.5,2^31,2^63,1e300,-1e300,+Inf,-Inf,NaN}) planted at every expression position of the language (line interpolation, option label, option condition, if / elseif condition, set and compound-set and declare value, jump expression, " +
				"command argument, call argument, nested function argument, either operand, unary operand; evaluated and short-circuited positions); one fault per program, and any two faults one after the other (typed faults; quick: the first 33 of them); all in-range choice sequences; 3 further calls after every error; " +
				"non-trivial = every case (each plants at least one fault)",
			StatesMean:  "(program, trace prefix) pairs; transitions = real Next calls",
			Assumptions: []string{"small-scope hypothesis", "a fault in an always-evaluated position must yield an error at that step; in a conditionally evaluated position only 'no panic' is demanded", "after a failing statement other than an option group the dialogue goes on with the statement that follows it (as the pinned tree does; C10 states it for commands): the strict walk compares the rest of every path under that reading (clauses after-error-*)", "dice(x) must fail for x<1, NaN or |x|>=2^63; random_range(a,b) for a>b, NaN or |bound|>=2^63; other argument values need only not panic"},
		},
		QuickBudget: 180 * time.Second, ThoroughBudget: 14 * time.Minute, CrashIsViolation: true,
		Run: runC06,
	})
}

type fault struct {
	text    string
	mustErr bool
}

func numText(x float64) string {
	switch {
	case math.IsNaN(x):
		return "(0/0)"
	case math.IsInf(x, 1):
		return "(1/0)"
	case math.IsInf(x, -1):
		return "(-1/0)"
	case x < 0:
		return "-" + strconv.FormatFloat(-x, 'f', -1, 64)
	}
	return strconv.FormatFloat(x, 'f', -1, 64)
}

var extremeNums = []float64{0, -1, 0.5, 1, 2.5, 1 << 31, 1 << 63, 1e300, -1e300, math.Inf(1), math.Inf(-1), math.NaN()}

func typedFaults() []fault {
	fs := []fault{
		// ill-typed operation per operator
		{`1 + "a"`, true}, {`"a" + 1`, true}, {`true + true`, true}, {`"a" - "b"`, true}, {`"a" * 2`, true}, {`true / 2`, true}, {`"a" % 2`, true},
		{`true < false`, true}, {`"a" <= "b"`, true}, {`1 > "a"`, true}, {`true >= 1`, true}, {`1 == "1"`, true}, {`true != 1`, true},
		{`1 and true`, true}, {`true and 1`, true}, {`"a" or true`, true}, {`false or 1`, true}, {`1 xor 2`, true}, {`true xor "a"`, true},
		{`not 1`, true}, {`not "a"`, true}, {`-"a"`, true}, {`-true`, true},
		// unknown things
		{`$nope`, true}, {`nofn()`, true}, {`nofn(1, 2)`, true}, {`string(nofn())`, true}, {`$nope + 1`, true},
		// null and no-result functions
		{`null`, true}, {`null + 1`, true}, {`note(1)`, true}, {`string(note(1))`, true}, {`1 + note(1)`, true},
		// wrong argument counts / types of built-ins
		{`dice()`, true}, {`dice(1, 2)`, true}, {`dice("a")`, true}, {`dice(true)`, true}, {`random(1)`, true}, {`random_range(1)`, true}, {`random_range(1, "a")`, true},
		{`floor()`, true}, {`floor("a")`, true}, {`ceil(true)`, true}, {`round(1, 2)`, true}, {`round_places(1)`, true}, {`round_places(1, "a")`, true},
		{`inc()`, true}, {`dec("a")`, true}, {`decimal(true)`, true}, {`integer()`, true},
		{`visited()`, true}, {`visited(1)`, true}, {`visited_count(true)`, true}, {`visited_count("A", "B")`, true},
		{`string()`, true}, {`string(1, 2)`, true}, {`number()`, true}, {`number("abc")`, true}, {`number("")`, true}, {`bool()`, true}, {`bool("abc")`, true}, {`bool("")`, true},
		// host functions: failing handler, wrong use of converted functions
		{`hfail()`, true}, {`conv()`, true}, {`conv(1)`, true}, {`conv("a", "b")`, true}, {`conv(1, "a", 3)`, true}, {`conv(1, 2)`, true}, {`conv(true, "a")`, true},
		{`convv()`, true}, {`convv("a")`, true}, {`convv(1, 2)`, true},
		// legal oddities: must simply not panic
		{`convn("a", 1, 2)`, false}, {`convn("a")`, false}, {`convn(1)`, true}, {`convn("a", "b")`, true},
		// converted functions whose error result is a concrete error type (by value, Errno-like, pointer nil / non-nil)
		{`everr()`, true}, {`eptr()`, true}, {`eerrno()`, false}, {`eptrnil()`, false}, {`everr2()`, false}, {`eok()`, false},
		{`conv(1, "a")`, false}, {`convv(1)`, false}, {`convv(1, "a", "b")`, false}, {`string(0/0)`, false}, {`string(1/0)`, false}, {"string(" + numText(1e300) + " * " + numText(1e300) + ")", false},
		{`bool(0/0)`, false}, {`number("NaN")`, false}, {`number("1e999")`, false}, {`number("0x10")`, false}, {`bool("T")`, false},
		{`visited("")`, false}, {`visited_count("nowhere")`, false}, {`0/0 == 0/0`, false}, {`(1/0) % 2`, false}, {`2 % 0`, false},
	}
	return fs
}

func domainFaults() []fault {
	var fs []fault
	for _, x := range extremeNums {
		must := math.IsNaN(x) || x < 1 || math.Abs(x) >= (1<<63)
		fs = append(fs, fault{"dice(" + numText(x) + ")", must})
		for _, fn := range []string{"floor", "ceil", "round", "inc", "dec", "decimal", "integer", "string", "bool", "number"} {
			fs = append(fs, fault{fn + "(" + numText(x) + ")", false})
		}
		for _, y := range extremeNums {
			must := math.IsNaN(x) || math.IsNaN(y) || math.Abs(x) >= (1<<63) || math.Abs(y) >= (1<<63) || math.Trunc(x) > math.Trunc(y)
			fs = append(fs, fault{"random_range(" + numText(x) + ", " + numText(y) + ")", must})
			fs = append(fs, fault{"round_places(" + numText(x) + ", " + numText(y) + ")", false})
		}
	}
	return fs
}

// position templates: a body with the fault planted in one expression position. evaluated says
// whether every reading of the language evaluates that position.
type position struct {
	name      string
	evaluated bool
	build     func(f *yc.Expr) []*yc.Stmt
	valueOnly bool // the position only admits a value (declare): faults that are not values are wrapped in string(...)
}

func exprPart(f *yc.Expr) yc.Part { return yc.Part{E: f} }

func positions() []position {
	txt := func(s string) yc.Part { return yc.Part{Src: s, Want: s} }
	return []position{
		{"line", true, func(f *yc.Expr) []*yc.Stmt {
			return []*yc.Stmt{yc.LineOf(&yc.LineSpec{Parts: []yc.Part{txt("a "), exprPart(f), txt(" b")}})}
		}, false},
		{"option-label", true, func(f *yc.Expr) []*yc.Stmt {
			return []*yc.Stmt{yc.Options(&yc.Option{Line: yc.TextLine("o1"), Body: []*yc.Stmt{yc.Line("in1")}},
				&yc.Option{Line: &yc.LineSpec{Parts: []yc.Part{txt("o2 "), exprPart(f)}}, Body: []*yc.Stmt{yc.Line("in2")}})}
		}, false},
		{"option-condition", true, func(f *yc.Expr) []*yc.Stmt {
			return []*yc.Stmt{yc.Options(&yc.Option{Line: &yc.LineSpec{Parts: []yc.Part{txt("o1")}, Cond: f}, Body: []*yc.Stmt{yc.Line("in1")}},
				&yc.Option{Line: yc.TextLine("o2")})}
		}, false},
		{"if-condition", true, func(f *yc.Expr) []*yc.Stmt {
			return []*yc.Stmt{yc.If(&yc.Clause{Cond: f, Body: []*yc.Stmt{yc.Line("then")}}, &yc.Clause{Body: []*yc.Stmt{yc.Line("else")}})}
		}, false},
		{"elseif-condition", true, func(f *yc.Expr) []*yc.Stmt {
			return []*yc.Stmt{yc.If(&yc.Clause{Cond: yc.EBoolean(false), Body: []*yc.Stmt{yc.Line("then")}}, &yc.Clause{Cond: f, Body: []*yc.Stmt{yc.Line("elif")}})}
		}, false},
		{"elseif-after-true-if", false, func(f *yc.Expr) []*yc.Stmt {
			return []*yc.Stmt{yc.If(&yc.Clause{Cond: yc.EBoolean(true), Body: []*yc.Stmt{yc.Line("then")}}, &yc.Clause{Cond: f, Body: []*yc.Stmt{yc.Line("elif")}})}
		}, false},
		{"set-value", true, func(f *yc.Expr) []*yc.Stmt { return []*yc.Stmt{yc.Set("x", "=", f)} }, false},
		{"compound-set-value", true, func(f *yc.Expr) []*yc.Stmt { return []*yc.Stmt{yc.Set("n", "=", yc.ENumber(1)), yc.Set("n", "+=", f)} }, false},
		{"declare-value", true, func(f *yc.Expr) []*yc.Stmt { return []*yc.Stmt{yc.Declare("d", f)} }, true},
		{"jump-expression", true, func(f *yc.Expr) []*yc.Stmt { return []*yc.Stmt{yc.JumpE(f)} }, false},
		{"command-argument", true, func(f *yc.Expr) []*yc.Stmt {
			return []*yc.Stmt{yc.Command("act", yc.CmdArg{Word: "w"}, yc.CmdArg{E: f})}
		}, false},
		{"call-argument", true, func(f *yc.Expr) []*yc.Stmt { return []*yc.Stmt{yc.Call("probe", f)} }, false},
		{"nested-call-argument", true, func(f *yc.Expr) []*yc.Stmt {
			return []*yc.Stmt{yc.LineOf(&yc.LineSpec{Parts: []yc.Part{exprPart(yc.ECallOf("string", yc.ECallOf("probe", f)))}})}
		}, false},
		{"left-operand", true, func(f *yc.Expr) []*yc.Stmt { return []*yc.Stmt{yc.Set("x", "=", yc.EBinary("==", f, yc.ENumber(1)))} }, false},
		{"right-operand", true, func(f *yc.Expr) []*yc.Stmt { return []*yc.Stmt{yc.Set("x", "=", yc.EBinary("==", yc.ENumber(1), f))} }, false},
		{"right-of-true-and", true, func(f *yc.Expr) []*yc.Stmt {
			return []*yc.Stmt{yc.Set("x", "=", yc.EBinary("and", yc.EBoolean(true), f))}
		}, false},
		{"right-of-false-and", false, func(f *yc.Expr) []*yc.Stmt {
			return []*yc.Stmt{yc.Set("x", "=", yc.EBinary("and", yc.EBoolean(false), f))}
		}, false},
		{"right-of-true-or", false, func(f *yc.Expr) []*yc.Stmt {
			return []*yc.Stmt{yc.Set("x", "=", yc.EBinary("or", yc.EBoolean(true), f))}
		}, false},
		{"right-of-false-or", true, func(f *yc.Expr) []*yc.Stmt {
			return []*yc.Stmt{yc.Set("x", "=", yc.EBinary("or", yc.EBoolean(false), f))}
		}, false},
		{"negated", true, func(f *yc.Expr) []*yc.Stmt { return []*yc.Stmt{yc.Set("x", "=", yc.ENegate(f))} }, false},
		{"not-operand", true, func(f *yc.Expr) []*yc.Stmt { return []*yc.Stmt{yc.Set("x", "=", yc.ENotOf(f))} }, false},
	}
}

// statement-level faults that are not expressions
func statementFaults() [][]*yc.Stmt {
	return [][]*yc.Stmt{
		{yc.Jump("Nowhere")},
		{yc.JumpE(yc.ENumber(1))},
		{yc.JumpE(yc.EString("Nowhere"))},
		{yc.Command("nocmd")},
		{yc.Command("nocmd", yc.CmdArg{Word: "x"})},
		{yc.Command("cfail")},
		{yc.Command("laterfail")}, // completes after one poll, with an error
		{yc.Command("later"), yc.Command("laterfail"), yc.Command("cfail")},
		{yc.Command("wait")},
		{yc.Command("wait", yc.CmdArg{Word: "soon"})},
		{yc.Command("wait", yc.CmdArg{Word: "1"}, yc.CmdArg{Word: "2"})},
		{yc.Call("nofn")},
		{yc.Call("hfail")},
		{yc.Set("f", "=", yc.ENumber(1))},                                      // type change of an existing boolean
		{yc.Set("f", "+=", yc.EBoolean(true))},                                 // compound on boolean
		{yc.Set("unknownvar", "+=", yc.ENumber(1))},                            // compound on unknown
		{yc.Declare("s", yc.EString("Bob")), yc.Set("s", "+=", yc.ENumber(1))}, // string += number
		{yc.Declare("g", yc.ENumber(10)), yc.Set("g", "+=", yc.EString("coins"))},
		{yc.Declare("g", yc.ENumber(10)), yc.Set("g", "-=", yc.EBoolean(true))},
		{yc.Declare("s", yc.EString("Bob")), yc.Set("s", "*=", yc.EString("x"))},
	}
}

var c06Host = &yc.HostSpec{
	Funcs: []yc.FuncSpec{{Name: "probe", Echo: true}, {Name: "note"}, {Name: "hfail", Fails: true}},
	Cmds:  []yc.CmdSpec{{Name: "act"}, {Name: "cfail", Fails: true}, {Name: "later", Deferred: true}, {Name: "laterfail", Deferred: true, Fails: true}},
	Vars:  map[string]yc.Value{"f": yc.Bool(false)},
}

func c06Setup(r *yc.Real, log *[]string) {
	c06Host.Install(r.DR, log)
	r.DR.ConvertAndAddFunction("conv", func(i int, s string) int { return i + len(s) })
	r.DR.ConvertAndAddFunction("convv", func(i int, rest ...string) string { return fmt.Sprint(i, rest) })
	r.DR.ConvertAndAddFunction("convn", func(owner myString, coins ...myInt) myInt { return myInt(len(owner) + len(coins)) })
	c06ErrorFunctions(r)
}

// c06ErrorFunctions registers converted functions with every shape of concrete error result (registration may
// refuse some: then calling them is an unknown-function error, which is fine too).
func c06ErrorFunctions(r *yc.Real) {
	r.DR.ConvertAndAddFunction("everr", func() valErr { return valErr{"by value"} })
	r.DR.ConvertAndAddFunction("eptr", func() *myErr { return &myErr{"pointer"} })
	r.DR.ConvertAndAddFunction("eerrno", func() errno { return errno(0) })
	r.DR.ConvertAndAddFunction("eptrnil", func() *myErr { return nil })
	r.DR.ConvertAndAddFunction("everr2", func() (int, valErr) { return 1, valErr{} })
	r.DR.ConvertAndAddFunction("eok", func() (int, error) { return 1, nil })
}

// c06Run executes one faulty program: every choice sequence, no call may panic; if mustErrStep is
// true the model decides where the error must occur (StrictErrors walk), else only "no panic".
func c06Run(ctx *report.Ctx, c *explore.Chooser, partName string, p *yc.Program, desc string, strict bool, refusals ...int) {
	srcs := yc.Render(p, nil)
	script := scriptOf(srcs)
	ctx.Current(partName + ": " + script)
	ctx.AddEvals(1, 1)
	ctx.Count("programs", 1)
	// 1. model-free: no panic on any path, also continuing after errors
	fr := yc.FreeWalk(srcs, yc.FreeOpts{MaxSteps: 10, Setup: c06Setup, AfterEnd: 1})
	ctx.AddStates(fr.Steps)
	ctx.AddTransitions(fr.Steps)
	ctx.AddTraces(fr.Paths)
	for _, t := range fr.Traces {
		ctx.Outcome(shapeOf(t))
	}
	report1 := func(clause, detail string, args []int) {
		ctx.Violation(report.Violation{Clause: clause, Witness: desc + " :: " + script, Detail: detail, Choices: c.Choices(), Part: partName,
			Extra: map[string]any{"scripts": srcs, "args": args, "go_test": goTestFor(srcs, "abc", args, detail)}})
	}
	switch {
	case fr.LoadPanic != "":
		report1("load-panic", "NewDialogueRunner panicked: "+fr.LoadPanic, nil)
		return
	case fr.LoadErr != nil:
		// the fault alphabet only contains syntactically valid scripts
		report1("load-error", "NewDialogueRunner refused a syntactically valid script: "+fr.LoadErr.Error(), nil)
		return
	case fr.Panic != "":
		report1("panic", fr.Panic, fr.PanicArgs)
		return
	}
	if !strict {
		return
	}
	// 2. the fault must surface as an error at its step
	wo := yc.WalkOpts{MaxSteps: 10, MaxJumps: 3, StrictErrors: true, AfterError: 3, Flags: yc.Flags{IgnoreText: true},
		Refusals: append(refusals, 0)[0], ContinueAfterError: true,
		Setup: func(r *yc.Real, log *[]string) {
			r.DR.ConvertAndAddFunction("conv", func(i int, s string) int { return i + len(s) })
			r.DR.ConvertAndAddFunction("convv", func(i int, rest ...string) string { return fmt.Sprint(i, rest) })
			r.DR.ConvertAndAddFunction("convn", func(owner myString, coins ...myInt) myInt { return myInt(len(owner) + len(coins)) })
			c06ErrorFunctions(r)
		}}
	mm, st := yc.Walk(p, srcs, c06Host, wo)
	ctx.AddStates(st.Steps)
	ctx.AddTransitions(st.Steps)
	if mm != nil {
		report1("fault-"+mm.Clause, fmt.Sprintf("%s; Next arguments %s; observed trace %v", mm.Detail, intsString(mm.Args), mm.Trace), mm.Args)
	}
}

func shapeOf(trace string) string {
	// outcome shape: sequence of element kinds only
	var b strings.Builder
	for _, part := range strings.Split(trace, " → ") {
		switch {
		case strings.HasPrefix(part, "line"):
			b.WriteByte('L')
		case strings.HasPrefix(part, "options"):
			b.WriteByte('O')
		case strings.HasPrefix(part, "error"):
			b.WriteByte('E')
		case strings.HasPrefix(part, "end"):
			b.WriteByte('.')
		default:
			b.WriteByte('?')
		}
	}
	return b.String()
}

func wrapProgram(body []*yc.Stmt) *yc.Program {
	full := append([]*yc.Stmt{yc.Line("head")}, body...)
	full = append(full, yc.Set("after", "=", yc.ENumber(1)), yc.Line("tail"))
	return &yc.Program{Nodes: []*yc.Node{{Title: "A", Body: full}, {Title: "B", Body: []*yc.Stmt{yc.Line("inB")}}}}
}

func isValueText(t string) bool {
	// declare admits: NUMBER, true, false, variable, STRING, null, function call (no operators outside a call)
	depth := 0
	for i, r := range t {
		switch r {
		case '(':
			if depth == 0 && i == 0 {
				return false
			}
			depth++
		case ')':
			depth--
		case '+', '*', '/', '%', '<', '>', '=', '!', ' ':
			if depth == 0 {
				return false
			}
		case '-':
			if depth == 0 {
				return false
			}
		}
	}
	return !strings.HasPrefix(t, "not")
}

func runC06(ctx *report.Ctx) {
	pos := positions()
	typed := typedFaults()
	domain := domainFaults()
	ctx.Bound("positions", len(pos))
	ctx.Bound("typed_faults", len(typed))
	ctx.Bound("domain_faults", len(domain))
	plant := func(ps position, f fault) (*yc.Program, bool) {
		text := f.text
		if ps.valueOnly && !isValueText(text) {
			text = "string(" + text + ")"
		}
		e := yc.ERawOf(text, f.mustErr)
		return wrapProgram(ps.build(e)), f.mustErr && ps.evaluated
	}
	part(ctx, "P1-typed", -1, func(c *explore.Chooser) {
		ps := pos[c.Choose(len(pos), "position")]
		f := typed[c.Choose(len(typed), "fault")]
		if !c.Mine() {
			return
		}
		p, strict := plant(ps, f)
		c06Run(ctx, c, "P1-typed", p, ps.name+" <- "+f.text, strict)
	})
	part(ctx, "P1-statements", -1, func(c *explore.Chooser) {
		sf := statementFaults()
		body := sf[c.Choose(len(sf), "statement-fault")]
		inOption := c.Choose(2, "nesting") == 1
		if !c.Mine() {
			return
		}
		if inOption {
			body = []*yc.Stmt{yc.Options(&yc.Option{Line: yc.TextLine("o1"), Body: body}, &yc.Option{Line: yc.TextLine("o2")})}
		}
		c06Run(ctx, c, "P1-statements", wrapProgram(body), "statement fault", true)
	})
	// RF: host configuration includes what the host tried and was refused: before the dialogue or between any two steps one
	// operation the library refuses (restore of a snapshot naming an unknown node; registration of values that are no
	// functions / commands under the names the script uses, known and unknown): every fault still surfaces as the error it
	// was, nothing panics, jumps included
	part(ctx, "RF-refused-host-operation", -1, func(c *explore.Chooser) {
		sf := append(statementFaults(), []*yc.Stmt{yc.Jump("B")}, []*yc.Stmt{yc.Line("l"), yc.Call("probe", yc.ENumber(1)), yc.Command("act"), yc.JumpE(yc.EString("B"))},
			[]*yc.Stmt{yc.Options(&yc.Option{Line: yc.TextLine("go"), Body: []*yc.Stmt{yc.Jump("B")}}, &yc.Option{Line: yc.TextLine("call"), Body: []*yc.Stmt{yc.Call("nofn"), yc.Command("nocmd"), yc.Jump("A")}})})
		body := sf[c.Choose(len(sf), "body")]
		if !c.Mine() {
			return
		}
		c06Run(ctx, c, "RF-refused-host-operation", wrapProgram(body), "refused host operation", true, 1)
	})
	// LOOP-RETYPE: a compound assignment that has succeeded before (the node is entered again through a jump) meets a variable
	// to which the host has meanwhile given another type: an error like the first time it would have been, never a panic
	part(ctx, "LOOP-RETYPE", -1, func(c *explore.Chooser) {
		ops := []string{"+=", "-=", "*=", "/=", "%="}
		type rt struct {
			init, rhs *yc.Expr
			ops       []string
			to        []yc.Value
		}
		kinds := []rt{
			{yc.ENumber(0), yc.ENumber(1), ops, []yc.Value{yc.Str("two"), yc.Bool(true)}},
			{yc.EString("a"), yc.EString("b"), []string{"+="}, []yc.Value{yc.Num(2), yc.Bool(false)}},
		}
		k := kinds[c.Choose(len(kinds), "kind")]
		op := k.ops[c.Choose(len(k.ops), "op")]
		to := k.to[c.Choose(len(k.to), "retyped-to")]
		at := 1 + c.Choose(4, "after-step")
		if !c.Mine() {
			return
		}
		p := &yc.Program{Nodes: []*yc.Node{
			{Title: "A", Body: []*yc.Stmt{yc.Declare("x", k.init), yc.Jump("Loop")}},
			{Title: "Loop", Body: []*yc.Stmt{yc.Set("x", op, k.rhs), yc.LineOf(&yc.LineSpec{Parts: []yc.Part{{Src: "x=", Want: "x="}, {E: yc.EVariable("x")}}}), yc.Jump("Loop")}},
		}}
		srcs := yc.Render(p, nil)
		w := fmt.Sprintf("loop over <<set $x %s ...>>, after step %d the host writes $x = %s", op, at, to)
		ctx.Current("LOOP-RETYPE: " + w)
		wo := yc.WalkOpts{MaxSteps: 8, MaxJumps: 7, StrictErrors: true, ContinueAfterError: true, CompareStore: true, DevBudget: -1,
			Host: func(ch *explore.Chooser, step int, m *yc.Machine, st variable.Storer) {
				if step != at {
					return
				}
				switch to.K {
				case yc.VNum:
					st.SetNumberValue("x", to.N)
				case yc.VBool:
					st.SetBooleanValue("x", to.B)
				default:
					st.SetStringValue("x", to.S)
				}
				m.Store["x"] = to
			}}
		mm, st := yc.Walk(p, srcs, &yc.HostSpec{}, wo)
		ctx.AddEvals(1, 1)
		ctx.AddStates(st.Steps)
		ctx.AddTransitions(st.Steps)
		ctx.AddTraces(st.Paths)
		if mm != nil {
			ctx.Violation(report.Violation{Clause: "fault-" + mm.Clause, Witness: w + " :: " + scriptOf(srcs), Detail: fmt.Sprintf("%s; observed trace %v", mm.Detail, mm.Trace), Choices: c.Choices(), Part: "LOOP-RETYPE",
				Extra: map[string]any{"scripts": srcs}})
		}
	})
	// HC: host configuration includes the state the host restores: snapshots it built itself (a save file holding
	// only some fields: nil maps) restored before the dialogue runs; every path, continuing after errors: no panic
	part(ctx, "HC-host-snapshot", -1, func(c *explore.Chooser) {
		sf := append(statementFaults(), []*yc.Stmt{yc.Jump("B")}, []*yc.Stmt{yc.Set("v", "=", yc.ENumber(1)), yc.JumpE(yc.EBinary("+", yc.EString(""), yc.EString("B")))},
			[]*yc.Stmt{yc.Options(&yc.Option{Line: yc.TextLine("go"), Body: []*yc.Stmt{yc.Jump("B")}}, &yc.Option{Line: yc.TextLine("again"), Body: []*yc.Stmt{yc.Jump("A")}})})
		body := sf[c.Choose(len(sf), "body")]
		node := []string{"A", "B"}[c.Choose(2, "node")]
		kind := c.Choose(4, "snapshot")
		when := c.Choose(2, "when")
		if !c.Mine() {
			return
		}
		p := wrapProgram(body)
		p.Nodes[1].Body = append(p.Nodes[1].Body, yc.LineOf(&yc.LineSpec{Parts: []yc.Part{{Src: "visits ", Want: "visits "}, {E: yc.ECallOf("visited_count", yc.EString("A"))}}}), yc.Jump("A"))
		srcs := yc.Render(p, nil)
		script := scriptOf(srcs)
		ctx.Current("HC-host-snapshot: " + script)
		snap := &ysgo.Snapshot{CurrentNode: node}
		switch kind {
		case 1:
			snap.Variables = map[string]variable.Value{}
		case 2:
			snap.VisitedNodes = map[string]int{}
		case 3:
			snap.Variables, snap.VisitedNodes = map[string]variable.Value{"v": *variable.NewNumber(2)}, map[string]int{"B": 1}
		}
		desc := fmt.Sprintf("RestoreAt(host-built snapshot of node %s, kind %d: 0 = both maps nil, 1 = visit counts nil, 2 = variables nil, 3 = both set) %s", node, kind, []string{"before the first Next", "after the first Next"}[when])
		var restoreErr error
		var restorePanic any
		fr := yc.FreeWalk(srcs, yc.FreeOpts{MaxSteps: 9, AfterEnd: 1, Setup: func(r *yc.Real, log *[]string) {
			c06Setup(r, log)
			if when == 1 {
				r.Next(0)
			}
			restorePanic = guard(func() { restoreErr = r.DR.RestoreAt(snap) })
		}})
		ctx.AddEvals(1, 1)
		ctx.AddStates(fr.Steps)
		ctx.AddTransitions(fr.Steps)
		ctx.AddTraces(fr.Paths)
		report1 := func(clause, detail string, args []int) {
			ctx.Violation(report.Violation{Clause: clause, Witness: desc + " :: " + script, Detail: detail, Choices: c.Choices(), Part: "HC-host-snapshot", Extra: map[string]any{"scripts": srcs, "args": args}})
		}
		switch {
		case restorePanic != nil:
			report1("panic", fmt.Sprintf("RestoreAt panicked: %v", restorePanic), nil)
		case restoreErr != nil && kind != 3:
			// refusing a snapshot with a missing (nil) field with an error is not forbidden: not constrained
			ctx.Skip("a host-built snapshot with a nil field was refused with an error")
		case restoreErr != nil:
			report1("restore-refused", "RestoreAt of a complete snapshot naming an existing node failed: "+restoreErr.Error(), nil)
		case fr.LoadPanic != "" || fr.LoadErr != nil:
			ctx.HarnessError("HC: script does not load: %v %s\n%s", fr.LoadErr, fr.LoadPanic, script)
		case fr.Panic != "":
			report1("panic", fr.Panic, fr.PanicArgs)
		}
	})
	// P1-markup: lines and option labels whose markup is odd, wrong or produced by interpolation: preparing them may
	// fail (an error), it never panics, and the dialogue goes on
	markupLines := []string{
		`[plural value=2 one="% a" other="% b\\\\" /]`, `[select value=a a="%\\\\" /]`, `[ordinal value=1 one="\\\\%\\\\" other="x" /] tail`, `[select value=a a="\\\\" /]`,
		`[plural value=2 one="%" other="%%%" /]`, `[select value=b a="1" /]`, `[plural value=x one="1" /]`, `[ordinal value=1.5 one="1" /]`, `[select /]`, `[plural value=1 /]`,
		`[a`, `x [b/`, `[/]`, `[/a]`, `[a][/b]`, `[nomarkup]never closed`, `[select value=a a="1"]never closed`, `[a=]`, `[a x=]`, `[=1]`, `[a x="unterminated]`,
		`{"["}`, `{"[a]"}x{"[/a]"}`, `{"[a"}`, `{"\\\\"}`, `{"[nomarkup]"}[b]{"[/nomarkup]"}`, `{"[select value=a a="}"1"{"/]"}`, `{$f}: [b]x[/b]`, `é: [select value={$f} True="t" False="f" /]`,
	}
	part(ctx, "P1-markup", -1, func(c *explore.Chooser) {
		text := markupLines[c.Choose(len(markupLines), "line")]
		where := c.Choose(3, "where")
		if !c.Mine() {
			return
		}
		var body []*yc.Stmt
		switch where {
		case 0:
			body = []*yc.Stmt{yc.Line(text)}
		case 1:
			body = []*yc.Stmt{yc.Options(&yc.Option{Line: yc.TextLine("plain"), Body: []*yc.Stmt{yc.Line("in1")}}, &yc.Option{Line: yc.TextLine(text), Body: []*yc.Stmt{yc.Line("in2")}})}
		case 2:
			body = []*yc.Stmt{yc.Options(&yc.Option{Line: yc.TextLine(text)}, &yc.Option{Line: yc.TextLine(text + " again")}), yc.Line(text)}
		}
		c06Run(ctx, c, "P1-markup", wrapProgram(body), "odd markup: "+text, false)
	})
	domainPos := pos
	part(ctx, "P1-domain", -1, func(c *explore.Chooser) {
		ps := domainPos[c.Choose(len(domainPos), "position")]
		f := domain[c.Choose(len(domain), "fault")]
		if !c.Mine() {
			return
		}
		p, strict := plant(ps, f)
		c06Run(ctx, c, "P1-domain", p, ps.name+" <- "+f.text, strict)
	})
	{
		// P2: any two faults, one after the other (reduced alphabet in the quick tier)
		small := typed
		if ctx.Quick() {
			small = typed[:33]
		}
		part(ctx, "P2-pairs", -1, func(c *explore.Chooser) {
			p1 := pos[c.Choose(len(pos), "position1")]
			f1 := small[c.Choose(len(small), "fault1")]
			p2 := pos[c.Choose(len(pos), "position2")]
			f2 := small[c.Choose(len(small), "fault2")]
			if !c.Mine() {
				return
			}
			t1, t2 := f1.text, f2.text
			if p1.valueOnly && !isValueText(t1) {
				t1 = "string(" + t1 + ")"
			}
			if p2.valueOnly && !isValueText(t2) {
				t2 = "string(" + t2 + ")"
			}
			body := append(p1.build(yc.ERawOf(t1, true)), yc.Line("between"))
			body = append(body, p2.build(yc.ERawOf(t2, true))...)
			c06Run(ctx, c, "P2-pairs", wrapProgram(body), p1.name+" <- "+t1+" ; "+p2.name+" <- "+t2, false)
		})
	}
}
