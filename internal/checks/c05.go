package checks

import (
	"bytes"
	"errors"
	"fmt"
	"io"
	"regexp"
	"strings"
	"testing/iotest"
	"time"

	"github.com/antlr4-go/antlr/v4"

	"github.com/remieven/ysgo/internal/parser"
	"github.com/remieven/ysgo/verifx/internal/explore"
	"github.com/remieven/ysgo/verifx/internal/report"
	yc "github.com/remieven/ysgo/verifx/internal/yarncore"
)

func init() {
	register(&Check{
		Meta: report.Meta{
			Property: "C05",
			Rule: "I1: every byte string of length <=4 (quick) / 5 (thorough) over a 20-symbol alphabet reaching every lexer mode, raw and spliced into the body, the header and between the nodes of a valid wrapper; " +
				"I2: every single (quick) / pair (thorough, reduced vocabulary) of token-level mutations {delete, duplicate, transpose, replace by each token of a vocabulary} at every token position of a grammar-coverage corpus of valid scripts (one per alternative of the parser rules and per lexer mode), plus truncation at every byte; " +
				"I3: every 2-way split of every corpus script across two readers at every byte offset, and every composition of its whole nodes into readers, plus empty / invalid readers before and after valid ones; I5: every indentation string over {space, tab} of length <=10 (quick) / 13 (thorough) before a content line, a comment line and a blank line in five contexts (node body, option body, after a 4-space and after a tab-indented line, if body); I6: every corpus script delivered one byte at a time / by half reads / with the last bytes together with EOF / with empty reads in between (same answer as from a plain reader), and cut by a read error after every number of bytes, alone and as the second of two readers (an error, never a runner); I7: every corpus script in a seekable reader of which the host has consumed every number of bytes (strings.Reader, bytes.Reader), in a reader used before, in one reader value passed twice, in a reader positioned by Seek (the input is what the readers still have to deliver); I4: every seed over {a z 0 9 A - space é} up to length 3, the empty seed and overflow-length seeds; " +
				"oracle: independent validity (the generated lexer and parser run by the harness with its own error listeners: valid iff no lexer error, no parser error, no panic and the whole token stream is consumed; a multi-reader input is valid iff every reader is; a non-blank non-comment line whose indentation mixes tabs and spaces is invalid whatever the recogniser says; a seed is valid iff it is over [0-9a-z]*): " +
				"no panic; valid => runner returned (and a first Next does not panic), invalid => error; a case is one (input, split, seed); non-trivial = input differs from a corpus script",
			StatesMean:  "distinct (input, reader split, seed) cases; transitions = NewDialogueRunner calls",
			Assumptions: []string{"the generated ANTLR recogniser of the repository is the definition of syntactic validity (trusted base), except for mixed indentation, which is decided by the harness", "mixed indentation on blank / comment-only lines and on the first line of a reader is not constrained"},
		},
		QuickBudget: 180 * time.Second, ThoroughBudget: 14 * time.Minute, CrashIsViolation: true,
		Run: runC05,
	})
}

type countingListener struct {
	*antlr.DefaultErrorListener
	n int
}

func (l *countingListener) SyntaxError(_ antlr.Recognizer, _ interface{}, _, _ int, _ string, _ antlr.RecognitionException) {
	l.n++
}

// recognises says whether the generated recogniser accepts the input without any error or panic.
func recognises(input string) bool {
	ok := false
	pan := guard(func() {
		l := &countingListener{DefaultErrorListener: antlr.NewDefaultErrorListener()}
		lexer := parser.NewYarnSpinnerLexer(antlr.NewInputStream(input))
		lexer.RemoveErrorListeners()
		lexer.AddErrorListener(l)
		stream := antlr.NewCommonTokenStream(lexer, antlr.LexerDefaultTokenChannel)
		p := parser.NewYarnSpinnerParser(stream)
		p.RemoveErrorListeners()
		p.AddErrorListener(l)
		p.Dialogue()
		// the whole input must be a dialogue: the rule 'dialogue' has no EOF of its own, so a
		// recogniser that stops after the last complete node has not accepted what follows
		ok = l.n == 0 && stream.LA(1) == antlr.TokenEOF
	})
	return ok && pan == nil
}

var lineSplit = regexp.MustCompile(`\r\n|\r|\n`)

// mixedIndent classifies indentation mixing tabs and spaces: hard = on a line with content (must
// be an error), soft = only on blank / comment lines or the first line (not constrained).
func mixedIndent(input string) (hard, soft bool) {
	for i, line := range lineSplit.Split(input, -1) {
		j := 0
		sp, tab := false, false
		for j < len(line) && (line[j] == ' ' || line[j] == '\t') {
			if line[j] == ' ' {
				sp = true
			} else {
				tab = true
			}
			j++
		}
		if !(sp && tab) {
			continue
		}
		rest := line[j:]
		if i == 0 || rest == "" || strings.HasPrefix(rest, "//") {
			soft = true
		} else {
			hard = true
		}
	}
	return
}

// stutterReader answers every other Read with (0, nil) and otherwise delivers at most 3 bytes.
type stutterReader struct {
	r io.Reader
	n int
}

func (z *stutterReader) Read(p []byte) (int, error) {
	z.n++
	if z.n%2 == 1 {
		return 0, nil
	}
	if len(p) > 3 {
		p = p[:3]
	}
	return z.r.Read(p)
}

var seedOK = regexp.MustCompile(`^[0-9a-z]*$`)

func c05Case(ctx *report.Ctx, c *explore.Chooser, partName string, readers []string, seed string, nontrivial bool) {
	desc := fmt.Sprintf("%s: seed %q readers %q", partName, seed, readers)
	ctx.Current(desc)
	valid, unconstrained := seedOK.MatchString(seed), false
	for _, r := range readers {
		hard, soft := mixedIndent(r)
		switch {
		case hard:
			valid = false
		case soft:
			unconstrained = true
		}
		if !hard && !recognises(r) {
			valid = false
		}
	}
	if len(readers) == 0 {
		valid = false
	}
	r, err, pan := yc.NewReal(readers, seed, nil)
	ctx.AddEvals(1, b2i(nontrivial))
	ctx.AddStates(1)
	ctx.AddTransitions(1)
	ctx.AddTraces(1)
	ctx.Outcome(fmt.Sprintf("valid=%v err=%v", valid, err != nil))
	fail := func(clause, detail string) {
		ctx.Violation(report.Violation{Clause: clause, Witness: fmt.Sprintf("seed %q readers %q", seed, readers), Detail: detail, Choices: c.Choices(), Part: partName,
			Extra: map[string]any{"readers": readers, "seed": seed}})
	}
	switch {
	case pan != "":
		fail("load-panic", "NewDialogueRunner panicked: "+pan)
	case unconstrained && valid:
		// either answer is fine
	case valid && err != nil:
		fail("valid-refused", "a syntactically valid script (and valid seed) was refused: "+err.Error())
	case !valid && err == nil:
		fail("invalid-accepted", "an input that is not a valid Yarn script (or an invalid seed) was loaded without error")
	}
	if r != nil && pan == "" && !strings.Contains(strings.Join(readers, ""), "jump") {
		// (scripts with jumps may legitimately never yield: no first step is tried on them)
		if ro := r.Next(0); ro.Panic != "" {
			fail("runner-unusable", "the returned runner panicked on its first Next: "+ro.Panic)
		}
	}
}

// the grammar-coverage corpus: small valid scripts, at least one per alternative of every parser
// rule and per lexer mode
func c05Corpus() []string {
	n := func(body string) string { return "title: A\n---\n" + body + "===\n" }
	return []string{
		n(""), n("line\n"), n("a {1 + 2} b\n"), n("tagged #t1 #t2\n"), n("cond <<if true>>\n"), n("esc \\{ \\# \\\\ \\< \\> x\n"), n("é 日本 😀\n"), n("x // comment\n"), n("// only comment\nx\n"),
		n("-> a\n-> b\n"), n("-> a\n    in a\n-> b <<if $x>> #t\n    in b\n"), n("-> a\n    -> deep\n        x\n    y\nz\n"),
		n("<<if true>>\nx\n<<endif>>\n"), n("<<if 1 < 2>>\nx\n<<elseif false>>\ny\n<<else>>\nz\n<<endif>>\n"), n("<<if true>>\n    indented\n<<endif>>\n"),
		n("<<set $x = 1>>\n"), n("<<set $x to \"s\">>\n"), n("<<set $x += 1>>\n<<set $x -= 1>>\n<<set $x *= 2>>\n<<set $x /= 2>>\n<<set $x %= 2>>\n"),
		n("<<declare $d = 1>>\n"), n("<<declare $d = \"s\" as string>>\n"), n("<<declare $d = true>>\n<<declare $e = null>>\n<<declare $f = $d>>\n<<declare $g = dice(6)>>\n"),
		"title: A\n---\n<<jump B>>\n===\ntitle: B\n---\nb\n===\n", "title: A\n---\n<<jump {\"B\"}>>\n===\ntitle: B\n---\nb\n===\n", n("<<stop>>\n"), n("<<call f()>>\n"), n("<<call f(1, \"s\", $x)>>\n"), n("<<call f(,1)>>\n"),
		n("<<cmd>>\n"), n("<<cmd a {1} b>>\n"), n("<<wait 1>>\n"),
		n("{(1 + 2) * -3 / 4 % 5}\n"), n("{not true and false or true xor false}\n"), n("{1 <= 2} {1 >= 2} {1 == 2} {1 != 2} {1 lte 2} {1 is 2} {1 neq 2} {!true} {true && false || true ^ false}\n"),
		n("{f(g(1), \"a\")} {$v} {1.5} {\"str\"} {null}\n"), n("    indented line\n"), n("a\n\n\nb\n"), n("\tx\n\ty\n"),
		"title: A\nposition: 1,2\ncolor:\n---\nx\n===\n", "title: A\n---\nx\n===\ntitle: B\ntracking: never\n---\ny\n===\n", "#filetag\ntitle: A\n---\nx\n===\n", "title: A\n---\nx\n===", "title: A\r\n---\r\nx\r\n-> o\r\n    y\r\n===\r\n",
	}
}

var c05Tokenizer = regexp.MustCompile(`<<|>>|->|===|---|\r\n|[A-Za-z_]+|[0-9]+|[ \t]+|\$[a-z]+|.|\n`)

var c05Vocabulary = []string{"<<", ">>", "->", "===", "---", "\n", " ", "    ", "\t", "{", "}", "#", "if ", "else", "endif", "elseif ", "set ", "jump ", "declare ", "call ", "stop", "$x", "=", "+", "1", "\"", "(", ")", ",", "\\", "//", "title", ":", "x", "é", "[", "<", ">", "null", " \t"}

func runC05(ctx *report.Ctx) {
	corpus := c05Corpus()
	ctx.Bound("corpus_scripts", len(corpus))
	// the corpus itself must be valid and accepted
	part(ctx, "corpus", -1, func(c *explore.Chooser) {
		i := c.Choose(len(corpus), "script")
		if !c.Mine() {
			return
		}
		if !recognises(corpus[i]) {
			ctx.HarnessError("C05: corpus script %d is not recognised as valid by the generated recogniser: %q", i, corpus[i])
			return
		}
		c05Case(ctx, c, "corpus", []string{corpus[i]}, "abc", false)
	})

	// I1: byte strings
	alphabet := []string{"a", "1", " ", "\n", "\t", "-", ">", "<", "{", "}", "#", "=", ":", "\\", "/", "\"", "$", "(", "\xc3", "\xa9"}
	maxLen := report.Pick(ctx, 4, 5)
	ctx.Bound("byte_string_length", maxLen)
	part(ctx, "I1", -1, func(c *explore.Chooser) {
		n := c.Choose(maxLen+1, "len")
		var b strings.Builder
		for i := 0; i < n; i++ {
			b.WriteString(alphabet[c.Choose(len(alphabet), "symbol")])
			if i == 0 {
				if !c.Mine() {
					return
				}
			}
		}
		if n == 0 && !c.Mine() {
			return
		}
		s := b.String()
		var input string
		switch c.Choose(5, "context") {
		case 0:
			input = s
		case 1:
			input = "title: A\n---\n" + s + "\n===\n"
		case 2:
			input = "title: A\n" + s + "\n---\nx\n===\n"
		case 3:
			input = "title: A\n---\nx\n===\n" + s + "\ntitle: B\n---\ny\n===\n"
		case 4:
			input = "title: A\n---\n-> o\n    x\n    " + s + "\n    y\n===\n"
		}
		c05Case(ctx, c, "I1", []string{input}, "abc", true)
	})

	// I2: token-level mutations
	mutate := func(c *explore.Chooser, toks []string, vocab []string) ([]string, string) {
		pos := c.Choose(len(toks), "position")
		kind := c.Choose(3+len(vocab), "mutation")
		out := append([]string{}, toks...)
		switch {
		case kind == 0:
			return append(out[:pos], out[pos+1:]...), fmt.Sprintf("delete token %d", pos)
		case kind == 1:
			return append(out[:pos+1], append([]string{toks[pos]}, out[pos+1:]...)...), fmt.Sprintf("duplicate token %d", pos)
		case kind == 2:
			if pos+1 < len(out) {
				out[pos], out[pos+1] = out[pos+1], out[pos]
			}
			return out, fmt.Sprintf("transpose tokens %d,%d", pos, pos+1)
		}
		out[pos] = vocab[kind-3]
		return out, fmt.Sprintf("replace token %d by %q", pos, vocab[kind-3])
	}
	part(ctx, "I2-single", -1, func(c *explore.Chooser) {
		i := c.Choose(len(corpus), "script")
		if !c.Mine() {
			return
		}
		toks := c05Tokenizer.FindAllString(corpus[i], -1)
		out, _ := mutate(c, toks, c05Vocabulary)
		c05Case(ctx, c, "I2-single", []string{strings.Join(out, "")}, "abc", true)
	})
	part(ctx, "I2-truncate", -1, func(c *explore.Chooser) {
		i := c.Choose(len(corpus), "script")
		if !c.Mine() {
			return
		}
		cut := c.Choose(len(corpus[i]), "cut")
		c05Case(ctx, c, "I2-truncate", []string{corpus[i][:cut]}, "abc", true)
	})
	if !ctx.Quick() {
		small := []string{"<<", ">>", "->", "===", "\n", "    ", "{", "}", "#", "endif", "\"", "\\", "\t"}
		part(ctx, "I2-pairs", -1, func(c *explore.Chooser) {
			i := c.Choose(len(corpus), "script")
			if !c.Mine() {
				return
			}
			toks := c05Tokenizer.FindAllString(corpus[i], -1)
			out, _ := mutate(c, toks, small)
			if len(out) == 0 {
				return
			}
			out, _ = mutate(c, out, small)
			c05Case(ctx, c, "I2-pairs", []string{strings.Join(out, "")}, "abc", true)
		})
	}

	// I3: reader splits
	part(ctx, "I3-byte-splits", -1, func(c *explore.Chooser) {
		i := c.Choose(len(corpus), "script")
		if !c.Mine() {
			return
		}
		cut := c.Choose(len(corpus[i])+1, "cut")
		c05Case(ctx, c, "I3-byte-splits", []string{corpus[i][:cut], corpus[i][cut:]}, "abc", true)
	})
	part(ctx, "I3-reader-lists", -1, func(c *explore.Chooser) {
		pieces := []string{"title: A\n---\nx\n===\n", "title: B\n---\ny\n===\ntitle: C\n---\nz\n===\n", "", "garbage", "title: D\n---\nx\n", "\n", "title: E\n---\n \tmixed\n===\n"}
		n := c.Choose(4, "nreaders")
		var readers []string
		for j := 0; j < n; j++ {
			readers = append(readers, pieces[c.Choose(len(pieces), "reader")])
		}
		if !c.Mine() {
			return
		}
		c05Case(ctx, c, "I3-reader-lists", readers, "abc", true)
	})

	// I5: indentation strings. Every string over {space, tab} of length <=10 (quick) / 13 (thorough) as the
	// indentation of a content line, of a comment line and of a blank line, in four contexts
	maxInd := report.Pick(ctx, 10, 13)
	ctx.Bound("I5_indentation_length", maxInd)
	part(ctx, "I5-indentation", -1, func(c *explore.Chooser) {
		n := c.Choose(maxInd+1, "len")
		ctxKind := c.Choose(5, "context")
		lineKind := c.Choose(3, "line")
		if !c.Mine() {
			return
		}
		var b strings.Builder
		for i := 0; i < n; i++ {
			b.WriteString([]string{" ", "\t"}[c.Choose(2, "ws")])
		}
		line := b.String() + []string{"x", "// c", ""}[lineKind]
		var input string
		switch ctxKind {
		case 0:
			input = "title: A\n---\n" + line + "\n===\n"
		case 1:
			input = "title: A\n---\n-> o\n" + line + "\nz\n===\n"
		case 2:
			input = "title: A\n---\n-> o\n    y\n" + line + "\n    z\n===\n"
		case 3:
			input = "title: A\n---\n-> o\n\ty\n" + line + "\n===\n"
		case 4:
			input = "title: A\n---\n<<if true>>\n" + line + "\n<<endif>>\n===\n"
		}
		c05Case(ctx, c, "I5-indentation", []string{input}, "abc", n > 0)
	})

	// I6: how the bytes arrive. A reader may deliver its bytes in any chunks (one byte at a time, half of what is
	// asked, the last bytes together with io.EOF, empty reads in between) - the answer must be that of the plain
	// reader; and a reader may fail after any number of bytes - then the input is not a script: an error, never a
	// runner built from the part that was read, never a panic. One reader of two may misbehave as well.
	part(ctx, "I6-reader-behaviour", -1, func(c *explore.Chooser) {
		i := c.Choose(len(corpus), "script")
		kind := c.Choose(6, "delivery")
		if !c.Mine() {
			return
		}
		src := corpus[i]
		cut := 0
		if kind == 4 || kind == 5 {
			cut = c.Choose(len(src)+1, "fail-after")
		}
		mk := func() io.Reader {
			switch kind {
			case 0:
				return iotest.OneByteReader(strings.NewReader(src))
			case 1:
				return iotest.HalfReader(strings.NewReader(src))
			case 2:
				return iotest.DataErrReader(strings.NewReader(src))
			case 3:
				return &stutterReader{r: strings.NewReader(src)}
			}
			return io.MultiReader(strings.NewReader(src[:cut]), iotest.ErrReader(errors.New("read failed")))
		}
		readers := []io.Reader{mk()}
		desc := fmt.Sprintf("script %d delivered %s", i, []string{"one byte at a time", "by half reads", "with the last bytes together with EOF", "with empty reads in between",
			fmt.Sprintf("until a read error after %d bytes", cut), fmt.Sprintf("as second reader after a valid one, until a read error after %d bytes", cut)}[kind])
		if kind == 5 {
			readers = []io.Reader{strings.NewReader("title: First\n---\nx\n===\n"), mk()}
		}
		ctx.Current("I6-reader-behaviour: " + desc)
		r, err, pan := yc.NewRealFrom(readers, "abc", nil)
		ctx.AddEvals(1, 1)
		ctx.AddStates(1)
		ctx.AddTransitions(1)
		ctx.AddTraces(1)
		fail := func(clause, detail string) {
			ctx.Violation(report.Violation{Clause: clause, Witness: desc, Detail: detail + fmt.Sprintf(" -- script %q", src), Choices: c.Choices(), Part: "I6-reader-behaviour"})
		}
		switch {
		case pan != "":
			fail("load-panic", "NewDialogueRunner panicked: "+pan)
		case kind >= 4 && err == nil:
			fail("read-error-ignored", "a reader failed, yet a runner was returned (built from the part of the input that had been read)")
		case kind < 4:
			_, plainErr, _ := yc.NewReal([]string{src}, "abc", nil)
			if (plainErr == nil) != (err == nil) {
				fail("delivery-changes-answer", fmt.Sprintf("read from a plain reader the answer is error=%v, with this delivery it is error=%v (%v)", plainErr != nil, err != nil, err))
			} else if r != nil && !strings.Contains(src, "jump") {
				plain, _, _ := yc.NewReal([]string{src}, "abc", nil)
				a, b := r.Next(0), plain.Next(0)
				if a.String() != b.String() {
					fail("delivery-changes-answer", fmt.Sprintf("first element %s, read from a plain reader %s", a.String(), b.String()))
				}
			}
		}
	})

	// I7: where the readers stand. The input of a reader is what it still has to deliver: a seekable reader
	// (strings.Reader, bytes.Reader, a file) from which the host has already consumed k bytes delivers the rest; one
	// that was read to its end (by an earlier NewDialogueRunner, say) delivers nothing, which is no script; one reader
	// value passed twice delivers its bytes once.
	part(ctx, "I7-reader-position", -1, func(c *explore.Chooser) {
		i := c.Choose(len(corpus), "script")
		kind := c.Choose(4, "usage")
		if !c.Mine() {
			return
		}
		src := corpus[i]
		var readers []io.Reader
		var equivalent []string // what the readers still have to deliver
		var desc string
		switch kind {
		case 0: // the host has consumed the first k bytes
			k := c.Choose(len(src)+1, "consumed")
			var r io.Reader = strings.NewReader(src)
			if c.Choose(2, "reader-type") == 1 {
				r = bytes.NewReader([]byte(src))
			}
			io.CopyN(io.Discard, r, int64(k))
			readers, equivalent = []io.Reader{r}, []string{src[k:]}
			desc = fmt.Sprintf("script %d in a seekable reader of which the host has consumed %d bytes", i, k)
		case 1: // a reader used for a second runner
			r := strings.NewReader(src)
			yc.NewRealFrom([]io.Reader{r}, "abc", nil)
			readers, equivalent = []io.Reader{r}, []string{""}
			desc = fmt.Sprintf("the reader of script %d used for a second runner", i)
		case 2: // the same reader value twice
			r := bytes.NewReader([]byte(src))
			readers, equivalent = []io.Reader{r, r}, []string{src, ""}
			desc = fmt.Sprintf("the reader of script %d passed twice", i)
		case 3: // positioned by Seek
			k := c.Choose(len(src)+1, "offset")
			r := strings.NewReader(src)
			r.Seek(int64(k), io.SeekStart)
			readers, equivalent = []io.Reader{strings.NewReader("title: First\n---\nx\n===\n"), r}, []string{"title: First\n---\nx\n===\n", src[k:]}
			desc = fmt.Sprintf("script %d in a reader positioned at offset %d by Seek, as second reader", i, k)
		}
		ctx.Current("I7-reader-position: " + desc)
		_, err, pan := yc.NewRealFrom(readers, "abc", nil)
		_, wantErr, _ := yc.NewReal(equivalent, "abc", nil)
		ctx.AddEvals(1, 1)
		ctx.AddStates(1)
		ctx.AddTransitions(2)
		ctx.AddTraces(1)
		switch {
		case pan != "":
			ctx.Violation(report.Violation{Clause: "load-panic", Witness: desc, Detail: "NewDialogueRunner panicked: " + pan, Choices: c.Choices(), Part: "I7-reader-position"})
		case (err == nil) != (wantErr == nil):
			ctx.Violation(report.Violation{Clause: "reader-position-ignored", Witness: desc, Choices: c.Choices(), Part: "I7-reader-position",
				Detail: fmt.Sprintf("what the readers still have to deliver is %q, for which the answer is error=%v; the answer was error=%v (%v)", equivalent, wantErr != nil, err != nil, err)})
		}
	})

	// I4: seeds
	seedAlphabet := []string{"a", "z", "0", "9", "A", "-", " ", "é"}
	part(ctx, "I4-seeds", -1, func(c *explore.Chooser) {
		n := c.Choose(5, "len")
		var seed string
		switch n {
		case 4:
			seed = []string{strings.Repeat("z", 13), strings.Repeat("z", 40), strings.Repeat("9", 30) + "A", "0000000000000000000000000000000000000001"}[c.Choose(4, "long")]
		default:
			for j := 0; j < n; j++ {
				seed += seedAlphabet[c.Choose(len(seedAlphabet), "char")]
			}
		}
		if !c.Mine() {
			return
		}
		c05Case(ctx, c, "I4-seeds", []string{corpus[1]}, seed, true)
	})
	ctx.Sample(map[string]any{"corpus_example": corpus[11], "mutation_vocabulary": c05Vocabulary[:12]})
}
