// Package report is the worker-side bookkeeping of a check (counts, samples, violations) and the
// driver-side merging into evidence files, replay files and the VIOLATION / KNOWN-FINDING lines.
package report

import (
	"crypto/sha256"
	"encoding/hex"
	"encoding/json"
	"fmt"
	"hash/fnv"
	"os"
	"path/filepath"
	"regexp"
	"sort"
	"strings"
	"sync"
	"sync/atomic"
	"time"
)

// Violation is one failing case.
type Violation struct {
	Property string         `json:"property"`
	Clause   string         `json:"clause"`  // which part of the oracle failed
	Witness  string         `json:"witness"` // canonical, minimal description of the failing case
	Detail   string         `json:"detail"`  // expected vs observed
	Choices  []int          `json:"choices,omitempty"`
	Part     string         `json:"part,omitempty"` // sub-exploration of the check the choices belong to
	Tier     string         `json:"tier"`
	Extra    map[string]any `json:"extra,omitempty"` // scripts, ops, schedule, go_test ...
}

// Result is what a worker sends back.
type Result struct {
	Worker        int              `json:"worker"`
	Evaluations   int64            `json:"evaluations"`
	Nontrivial    int64            `json:"nontrivial"`
	States        int64            `json:"states"`
	Transitions   int64            `json:"transitions"`
	Traces        int64            `json:"traces"`
	Leaves        int64            `json:"leaves"`
	ChoicePoints  int64            `json:"choice_points"`
	MaxDepth      int              `json:"max_depth"`
	Capped        bool             `json:"capped"`
	CapReasons    []string         `json:"cap_reasons,omitempty"`
	Skipped       map[string]int64 `json:"skipped,omitempty"`
	Counters      map[string]int64 `json:"counters,omitempty"`
	Samples       []any            `json:"samples,omitempty"`
	Outcomes      []uint64         `json:"outcomes,omitempty"` // hashes of distinct observable outcomes
	OutcomesOver  bool             `json:"outcomes_overflow,omitempty"`
	Violations    []Violation      `json:"violations,omitempty"`
	ViolationsCut int64            `json:"violations_cut,omitempty"`
	Notes         []string         `json:"notes,omitempty"`
	Bounds        map[string]any   `json:"bounds,omitempty"`
	HarnessErrors []string         `json:"harness_errors,omitempty"`
}

// Ctx is handed to a check running in a worker.
type Ctx struct {
	Property   string
	Tier       string // quick | thorough
	Seed       int64
	ShardIndex int
	ShardCount int
	Deadline   time.Time
	Replay     *Violation // non-nil in replay mode
	QuickPass  bool       // first pass of a thorough run: quick bounds

	mu       sync.Mutex
	res      Result
	outcomes map[uint64]struct{}
	vioKeys  map[string]int
	Progress atomic.Int64 // bumped by checks; watched by the hang watchdog
	current  atomic.Value // string: description of the case being executed (for hang/crash reports)
	trace    *os.File
}

const maxOutcomes = 200000
const maxViolationsPerClause = 3
const maxSamples = 6

// NewCtx creates a worker context.
func NewCtx(property, tier string, seed int64, k, n int, deadline time.Time) *Ctx {
	c := &Ctx{Property: property, Tier: tier, Seed: seed, ShardIndex: k, ShardCount: n, Deadline: deadline}
	c.res.Worker = k
	c.res.Skipped = map[string]int64{}
	c.res.Counters = map[string]int64{}
	c.res.Bounds = map[string]any{}
	c.outcomes = map[uint64]struct{}{}
	c.vioKeys = map[string]int{}
	if p := os.Getenv("VERIF_TRACE_FILE"); p != "" {
		c.trace, _ = os.OpenFile(p, os.O_CREATE|os.O_WRONLY|os.O_TRUNC, 0o644)
	}
	return c
}

// Quick tells whether the quick tier is running.
func (c *Ctx) Quick() bool { return c.Tier != "thorough" || c.QuickPass }

// EffectiveTier is the tier whose bounds are in force: a thorough run first runs everything at the quick bounds
// (QuickPass), so that a deadline met in the deep pass never leaves it with less than the quick tier covers.
func (c *Ctx) EffectiveTier() string {
	if c.Quick() {
		return "quick"
	}
	return "thorough"
}

// Pick returns q for the quick tier and t for the thorough tier.
func Pick[T any](c *Ctx, q, t T) T {
	if c.Quick() {
		return q
	}
	return t
}

// Current records the case about to be executed. With VERIF_TRACE_FILE set (crash attribution
// re-run) it is also written ahead to that file.
func (c *Ctx) Current(desc string) {
	c.current.Store(desc)
	c.Progress.Add(1)
	if c.trace != nil {
		c.trace.WriteString(strings.ReplaceAll(desc, "\n", "\\n") + "\n")
	}
}

// CurrentCase returns the last recorded case description.
func (c *Ctx) CurrentCase() string {
	if s, ok := c.current.Load().(string); ok {
		return s
	}
	return ""
}

// Eval counts executed cases; nontrivial says whether the case exercised the mechanism.
func (c *Ctx) Eval(nontrivial bool) {
	c.mu.Lock()
	c.res.Evaluations++
	if nontrivial {
		c.res.Nontrivial++
	}
	c.mu.Unlock()
	c.Progress.Add(1)
}

// AddEvals adds counts in bulk.
func (c *Ctx) AddEvals(evals, nontrivial int64) {
	c.mu.Lock()
	c.res.Evaluations += evals
	c.res.Nontrivial += nontrivial
	c.mu.Unlock()
	c.Progress.Add(1)
}

// AddStates, AddTransitions, AddTraces feed the model-checking counters.
func (c *Ctx) AddStates(n int64)      { c.mu.Lock(); c.res.States += n; c.mu.Unlock() }
func (c *Ctx) AddTransitions(n int64) { c.mu.Lock(); c.res.Transitions += n; c.mu.Unlock() }
func (c *Ctx) AddTraces(n int64)      { c.mu.Lock(); c.res.Traces += n; c.mu.Unlock() }

// Count bumps a named counter (reported under coverage.counters).
func (c *Ctx) Count(name string, n int64) { c.mu.Lock(); c.res.Counters[name] += n; c.mu.Unlock() }

// Skip counts a generated case that was deliberately not executed.
func (c *Ctx) Skip(reason string) { c.mu.Lock(); c.res.Skipped[reason]++; c.mu.Unlock() }

// Bound records a bound of the exploration for the evidence file.
func (c *Ctx) Bound(name string, v any) { c.mu.Lock(); c.res.Bounds[name] = v; c.mu.Unlock() }

// Note adds a free-text note to the evidence.
func (c *Ctx) Note(format string, a ...any) {
	c.mu.Lock()
	if len(c.res.Notes) < 20 {
		c.res.Notes = append(c.res.Notes, fmt.Sprintf(format, a...))
	}
	c.mu.Unlock()
}

// HarnessError records a problem of the machinery itself (exit 2, never a VIOLATION).
func (c *Ctx) HarnessError(format string, a ...any) {
	c.mu.Lock()
	if len(c.res.HarnessErrors) < 20 {
		c.res.HarnessErrors = append(c.res.HarnessErrors, fmt.Sprintf(format, a...))
	}
	c.mu.Unlock()
}

// Sample keeps the first few cases written out.
func (c *Ctx) Sample(v any) {
	c.mu.Lock()
	if len(c.res.Samples) < maxSamples {
		c.res.Samples = append(c.res.Samples, v)
	}
	c.mu.Unlock()
}

// WantSample tells whether another sample would be kept.
func (c *Ctx) WantSample() bool {
	c.mu.Lock()
	defer c.mu.Unlock()
	return len(c.res.Samples) < maxSamples
}

// Outcome records a distinct observable outcome (to expose vacuous exploration).
func (c *Ctx) Outcome(s string) {
	h := fnv.New64a()
	h.Write([]byte(s))
	c.OutcomeHash(h.Sum64())
}

// OutcomeHash records an outcome by hash.
func (c *Ctx) OutcomeHash(h uint64) {
	c.mu.Lock()
	if len(c.outcomes) < maxOutcomes {
		c.outcomes[h] = struct{}{}
	} else if _, ok := c.outcomes[h]; !ok {
		c.res.OutcomesOver = true
	}
	c.mu.Unlock()
}

// Stats merges explorer statistics.
func (c *Ctx) Stats(leaves, choicePoints int64, maxDepth int, capped bool, reason string) {
	c.mu.Lock()
	c.res.Leaves += leaves
	c.res.ChoicePoints += choicePoints
	if maxDepth > c.res.MaxDepth {
		c.res.MaxDepth = maxDepth
	}
	if capped {
		c.res.Capped = true
		c.res.CapReasons = append(c.res.CapReasons, reason)
	}
	c.mu.Unlock()
}

// Capped marks the run as not exhaustive.
func (c *Ctx) Capped(reason string) {
	c.mu.Lock()
	c.res.Capped = true
	if len(c.res.CapReasons) < 10 {
		c.res.CapReasons = append(c.res.CapReasons, reason)
	}
	c.mu.Unlock()
}

// Expired tells whether the internal deadline has passed.
func (c *Ctx) Expired() bool { return !c.Deadline.IsZero() && time.Now().After(c.Deadline) }

// Violation records a failing case. Only the first few witnesses per clause are kept (they are
// the smallest ones, enumeration being simplest-first); the rest are counted.
func (c *Ctx) Violation(v Violation) {
	v.Property = c.Property
	v.Tier = c.EffectiveTier() // the bounds under which the recorded choice vector is meaningful
	c.mu.Lock()
	defer c.mu.Unlock()
	key := v.Clause + "\x00" + v.Witness
	if _, dup := c.vioKeys[key]; dup {
		return
	}
	c.vioKeys[key] = 1
	n := 0
	for _, o := range c.res.Violations {
		if o.Clause == v.Clause {
			n++
		}
	}
	if n >= maxViolationsPerClause && !envBool("VERIF_ALL_VIOLATIONS") {
		c.res.ViolationsCut++
		return
	}
	c.res.Violations = append(c.res.Violations, v)
}

// ViolationCount returns the number of violations recorded so far.
func (c *Ctx) ViolationCount() int {
	c.mu.Lock()
	defer c.mu.Unlock()
	return len(c.res.Violations) + int(c.res.ViolationsCut)
}

func envBool(k string) bool { v := os.Getenv(k); return v != "" && v != "0" }

// Finish returns the result for transmission.
func (c *Ctx) Finish() *Result {
	c.mu.Lock()
	defer c.mu.Unlock()
	c.res.Outcomes = c.res.Outcomes[:0]
	for h := range c.outcomes {
		c.res.Outcomes = append(c.res.Outcomes, h)
	}
	sort.Slice(c.res.Outcomes, func(i, j int) bool { return c.res.Outcomes[i] < c.res.Outcomes[j] })
	r := c.res
	return &r
}

// ---------------------------------------------------------------------------------------------
// driver side

// Finding is an entry of known_findings.json.
type Finding struct {
	Property     string `json:"property"`
	Status       string `json:"status"` // open | fixed
	Clause       string `json:"clause"`
	WitnessRegex string `json:"witness_regex,omitempty"`
	What         string `json:"what"`
	Commit       string `json:"commit,omitempty"`
}

// LoadFindings reads known_findings.json (missing file = no findings).
func LoadFindings(path string) ([]Finding, error) {
	b, err := os.ReadFile(path)
	if os.IsNotExist(err) {
		return nil, nil
	} else if err != nil {
		return nil, err
	}
	var f struct {
		Findings []Finding `json:"findings"`
	}
	if err := json.Unmarshal(b, &f); err != nil {
		return nil, fmt.Errorf("known_findings.json: %w", err)
	}
	return f.Findings, nil
}

// Meta describes a check for the evidence file.
type Meta struct {
	Property    string
	Level       string
	Rule        string
	Assumptions []string
	StatesMean  string
}

// Merge combines worker results.
func Merge(rs []*Result) *Result {
	m := &Result{Skipped: map[string]int64{}, Counters: map[string]int64{}, Bounds: map[string]any{}}
	out := map[uint64]struct{}{}
	seenV := map[string]bool{}
	sort.Slice(rs, func(i, j int) bool { return rs[i].Worker < rs[j].Worker })
	for _, r := range rs {
		m.Evaluations += r.Evaluations
		m.Nontrivial += r.Nontrivial
		m.States += r.States
		m.Transitions += r.Transitions
		m.Traces += r.Traces
		if r.Leaves > m.Leaves {
			m.Leaves = r.Leaves // every worker enumerates all leaves; report the enumeration size once
		}
		m.ChoicePoints += r.ChoicePoints
		if r.MaxDepth > m.MaxDepth {
			m.MaxDepth = r.MaxDepth
		}
		if r.Capped {
			m.Capped = true
			m.CapReasons = append(m.CapReasons, r.CapReasons...)
		}
		for k, v := range r.Skipped {
			m.Skipped[k] += v
		}
		for k, v := range r.Counters {
			m.Counters[k] += v
		}
		for k, v := range r.Bounds {
			m.Bounds[k] = v
		}
		for _, s := range r.Samples {
			if len(m.Samples) < maxSamples {
				m.Samples = append(m.Samples, s)
			}
		}
		for _, h := range r.Outcomes {
			out[h] = struct{}{}
		}
		m.OutcomesOver = m.OutcomesOver || r.OutcomesOver
		for _, v := range r.Violations {
			k := v.Clause + "\x00" + v.Witness
			if !seenV[k] {
				seenV[k] = true
				m.Violations = append(m.Violations, v)
			}
		}
		m.ViolationsCut += r.ViolationsCut
		for _, n := range r.Notes { // every worker writes the same notes: keep one copy
			dup := false
			for _, o := range m.Notes {
				if o == n {
					dup = true
					break
				}
			}
			if !dup {
				m.Notes = append(m.Notes, n)
			}
		}
		m.HarnessErrors = append(m.HarnessErrors, r.HarnessErrors...)
	}
	for h := range out {
		m.Outcomes = append(m.Outcomes, h)
	}
	// smallest witnesses first
	sort.SliceStable(m.Violations, func(i, j int) bool {
		if m.Violations[i].Clause != m.Violations[j].Clause {
			return m.Violations[i].Clause < m.Violations[j].Clause
		}
		if len(m.Violations[i].Witness) != len(m.Violations[j].Witness) {
			return len(m.Violations[i].Witness) < len(m.Violations[j].Witness)
		}
		return m.Violations[i].Witness < m.Violations[j].Witness
	})
	if len(m.CapReasons) > 8 {
		m.CapReasons = m.CapReasons[:8]
	}
	return m
}

// Conclude writes evidence and replays, prints the KNOWN-FINDING / VIOLATION lines, and returns
// the exit code (0 held, 1 violation, 2 harness error).
func Conclude(root string, meta Meta, tier string, seed int64, m *Result, wall float64) int {
	findings, err := LoadFindings(filepath.Join(root, "known_findings.json"))
	if err != nil {
		fmt.Println("HARNESS-ERROR:", err)
		return 2
	}
	var fresh []Violation
	knownHit := map[string]int{}
	for _, v := range m.Violations {
		matched := false
		for _, f := range findings {
			if f.Status != "open" || f.Property != meta.Property || f.Clause != v.Clause {
				continue
			}
			re, err := regexp.Compile(f.WitnessRegex)
			if err != nil {
				fmt.Println("HARNESS-ERROR: known_findings.json regex:", err)
				return 2
			}
			if re.MatchString(v.Witness) {
				matched = true
				knownHit[f.What]++
				break
			}
		}
		if !matched {
			fresh = append(fresh, v)
		}
	}
	var knownList []string
	for k := range knownHit {
		knownList = append(knownList, k)
	}
	sort.Strings(knownList)
	for _, k := range knownList {
		fmt.Printf("KNOWN-FINDING: property=%s %s\n", meta.Property, k)
	}

	cov := map[string]any{
		"evaluations":                   m.Evaluations,
		"distinct_nontrivial":           m.Nontrivial,
		"rule":                          meta.Rule,
		"samples":                       m.Samples,
		"states":                        m.States,
		"transitions":                   m.Transitions,
		"traces_validated_against_impl": m.Traces,
		"states_meaning":                meta.StatesMean,
		"leaves_enumerated":             m.Leaves,
		"choice_points":                 m.ChoicePoints,
		"max_choice_depth":              m.MaxDepth,
		"distinct_outcomes":             len(m.Outcomes),
		"distinct_outcomes_overflow":    m.OutcomesOver,
		"exhaustive":                    !m.Capped,
		"caps_hit":                      m.CapReasons,
		"skipped":                       m.Skipped,
		"counters":                      m.Counters,
		"bounds":                        m.Bounds,
		"known_findings_hit":            knownList,
		"notes":                         m.Notes,
		"harness_errors":                m.HarnessErrors,
	}
	if len(m.Samples) == 0 {
		cov["samples"] = []any{"(no case was executed)"}
	}
	ev := map[string]any{
		"property_id": meta.Property,
		"tier":        tier,
		"seed":        seed,
		"level":       meta.Level,
		"coverage":    cov,
		"assumptions": meta.Assumptions,
		"wall_s":      wall,
		"violations":  len(fresh) + int(m.ViolationsCut),
	}
	evDir := filepath.Join(root, "evidence")
	if d := os.Getenv("VERIF_EVIDENCE_DIR"); d != "" {
		evDir = d // runs against a scratch copy of the repository must not overwrite the evidence of /repo
	}
	os.MkdirAll(evDir, 0o755)
	b, _ := json.MarshalIndent(ev, "", " ")
	if err := os.WriteFile(filepath.Join(evDir, meta.Property+".json"), append(b, '\n'), 0o644); err != nil {
		fmt.Println("HARNESS-ERROR: cannot write evidence:", err)
		return 2
	}

	fmt.Printf("%s %s: evaluations=%d nontrivial=%d states=%d transitions=%d traces=%d outcomes=%d exhaustive=%v wall=%.1fs\n",
		meta.Property, tier, m.Evaluations, m.Nontrivial, m.States, m.Transitions, m.Traces, len(m.Outcomes), !m.Capped, wall)
	if len(m.HarnessErrors) > 0 {
		for i, e := range m.HarnessErrors {
			if i < 10 {
				fmt.Println("HARNESS-ERROR:", e)
			}
		}
		if len(fresh) == 0 {
			return 2
		}
		// violations with a witness stand on their own (each can be replayed); the harness errors are
		// listed above and in the evidence
	}
	if len(fresh) == 0 {
		return 0
	}
	os.MkdirAll(filepath.Join(root, "replays"), 0o755)
	for _, v := range fresh {
		sum := sha256.Sum256([]byte(v.Clause + "\x00" + v.Witness))
		path := filepath.Join(root, "replays", fmt.Sprintf("%s-%s.json", meta.Property, hex.EncodeToString(sum[:6])))
		b, _ := json.MarshalIndent(v, "", " ")
		os.WriteFile(path, append(b, '\n'), 0o644)
		fmt.Printf("VIOLATION property=%s replay=%s\n", meta.Property, path)
		fmt.Printf("  clause=%s witness=%s\n  %s\n", v.Clause, oneLine(v.Witness, 300), oneLine(v.Detail, 600))
	}
	if m.ViolationsCut > 0 {
		fmt.Printf("  (+%d further failing cases of the same clauses not written out)\n", m.ViolationsCut)
	}
	return 1
}

func oneLine(s string, max int) string {
	s = strings.ReplaceAll(s, "\n", "\\n")
	if len(s) > max {
		s = s[:max] + "…"
	}
	return s
}
