// Package dump renders any Go value, including its unexported fields, into a canonical string
// using reflection only (no unsafe, no field names hard-coded). Pointers are canonicalised by
// first-visit order (maps have an identity too) and maps are sorted, so two dumps are equal iff the
// two object graphs are isomorphic, up to two approximations that only make keys coarser in ways
// no check relies on: pointers inside map values are numbered privately per value, and overlapping
// slices are not recognised as sharing memory. It is used for state-deduplication keys and diagnostics, never as an oracle on the
// meaning of a field.
package dump

import (
	"fmt"
	"reflect"
	"sort"
	"strconv"
	"strings"
)

type dumper struct {
	b    strings.Builder
	ptrs map[uintptr]int
	// elemInt, if set, renders integers that are direct elements of slices / arrays.
	elemInt func(int64) string
	inElem  bool
	// MaxDepth guards against pathological graphs.
	depth int
}

// String dumps v.
func String(v any) string {
	d := &dumper{ptrs: map[uintptr]int{}}
	d.value(reflect.ValueOf(v))
	return d.b.String()
}

// StringElems dumps v, rendering every integer that is a direct element of a slice or array with
// elemInt (used to renumber payloads of containers: sound by parametricity of generic containers) and
// including the capacity of every slice (it decides when a container grows next).
func StringElems(v any, elemInt func(int64) string) string {
	d := &dumper{ptrs: map[uintptr]int{}, elemInt: elemInt}
	d.value(reflect.ValueOf(v))
	return d.b.String()
}

// Values dumps several values into one string sharing the pointer numbering (so aliasing
// between them is part of the key).
func Values(vs ...any) string {
	d := &dumper{ptrs: map[uintptr]int{}}
	for i, v := range vs {
		if i > 0 {
			d.b.WriteString(" || ")
		}
		d.value(reflect.ValueOf(v))
	}
	return d.b.String()
}

func (d *dumper) ref(p uintptr) (int, bool) {
	if id, ok := d.ptrs[p]; ok {
		return id, true
	}
	id := len(d.ptrs) + 1
	d.ptrs[p] = id
	return id, false
}

func (d *dumper) value(v reflect.Value) {
	if !v.IsValid() {
		d.b.WriteString("nil")
		return
	}
	d.depth++
	defer func() { d.depth-- }()
	if d.depth > 200 {
		d.b.WriteString("<deep>")
		return
	}
	switch v.Kind() {
	case reflect.Bool:
		d.b.WriteString(strconv.FormatBool(v.Bool()))
	case reflect.Int, reflect.Int8, reflect.Int16, reflect.Int32, reflect.Int64:
		if d.inElem && d.elemInt != nil {
			d.b.WriteString(d.elemInt(v.Int()))
		} else {
			d.b.WriteString(strconv.FormatInt(v.Int(), 10))
		}
	case reflect.Uint, reflect.Uint8, reflect.Uint16, reflect.Uint32, reflect.Uint64, reflect.Uintptr:
		d.b.WriteString(strconv.FormatUint(v.Uint(), 10))
	case reflect.Float32, reflect.Float64:
		d.b.WriteString(strconv.FormatFloat(v.Float(), 'g', -1, 64))
	case reflect.Complex64, reflect.Complex128:
		d.b.WriteString(fmt.Sprint(v.Complex()))
	case reflect.String:
		d.b.WriteString(strconv.Quote(v.String()))
	case reflect.Pointer:
		if v.IsNil() {
			d.b.WriteString("nil")
			return
		}
		id, seen := d.ref(v.Pointer())
		if seen {
			d.b.WriteString("&" + strconv.Itoa(id))
			return
		}
		d.b.WriteString("&" + strconv.Itoa(id) + "=")
		d.value(v.Elem())
	case reflect.Interface:
		if v.IsNil() {
			d.b.WriteString("nil")
			return
		}
		d.b.WriteString("(" + v.Elem().Type().String() + ")")
		d.value(v.Elem())
	case reflect.Struct:
		d.b.WriteString(v.Type().Name() + "{")
		for i := 0; i < v.NumField(); i++ {
			if i > 0 {
				d.b.WriteString(" ")
			}
			d.b.WriteString(v.Type().Field(i).Name + ":")
			was := d.inElem
			d.inElem = false
			d.value(v.Field(i))
			d.inElem = was
		}
		d.b.WriteString("}")
	case reflect.Slice:
		if v.IsNil() {
			d.b.WriteString("nil[]")
			return
		}
		fallthrough
	case reflect.Array:
		d.b.WriteString("[")
		if v.Kind() == reflect.Slice {
			d.b.WriteString("len" + strconv.Itoa(v.Len()) + ":")
			if d.elemInt != nil {
				// container keys: the capacity decides when the next growth happens, so it is part of the state
				d.b.WriteString("cap" + strconv.Itoa(v.Cap()) + ":")
			}
		}
		for i := 0; i < v.Len(); i++ {
			if i > 0 {
				d.b.WriteString(" ")
			}
			was := d.inElem
			d.inElem = true
			d.value(v.Index(i))
			d.inElem = was
		}
		d.b.WriteString("]")
	case reflect.Map:
		if v.IsNil() {
			d.b.WriteString("nilmap")
			return
		}
		// two references to one map are not the same state as references to two equal maps
		mid, seenMap := d.ref(v.Pointer())
		if seenMap {
			d.b.WriteString("map&" + strconv.Itoa(mid))
			return
		}
		type kv struct{ k, v string }
		var items []kv
		iter := v.MapRange()
		for iter.Next() {
			kd := &dumper{ptrs: d.ptrs, depth: d.depth}
			kd.value(iter.Key())
			vd := &dumper{ptrs: d.ptrs, depth: d.depth}
			// values of maps may hold pointers; their numbering must not depend on map order:
			// dump them with a private numbering first for sorting, then for real below
			vd.ptrs = map[uintptr]int{}
			vd.value(iter.Value())
			items = append(items, kv{kd.b.String(), vd.b.String()})
		}
		sort.Slice(items, func(i, j int) bool { return items[i].k < items[j].k })
		d.b.WriteString("map&" + strconv.Itoa(mid) + "{")
		for i, it := range items {
			if i > 0 {
				d.b.WriteString(" ")
			}
			d.b.WriteString(it.k + ":" + it.v)
		}
		d.b.WriteString("}")
	case reflect.Chan:
		if v.IsNil() {
			d.b.WriteString("nilchan")
			return
		}
		d.b.WriteString("chan(len" + strconv.Itoa(v.Len()) + "/cap" + strconv.Itoa(v.Cap()) + ")")
	case reflect.Func:
		if v.IsNil() {
			d.b.WriteString("nilfunc")
		} else {
			d.b.WriteString("func")
		}
	case reflect.UnsafePointer:
		d.b.WriteString("unsafe")
	default:
		d.b.WriteString("?" + v.Kind().String())
	}
}
