package dump

import (
	"strings"
	"testing"
)

type node struct {
	name string
	next *node
	m    map[string]int
	s    []int
	f    func()
	i    any
}

func TestIsomorphicGraphsDumpEqual(t *testing.T) {
	mk := func() *node {
		a := &node{name: "a", m: map[string]int{"x": 1, "y": 2, "z": 3}, s: []int{1, 2}}
		b := &node{name: "b", next: a, i: 3.5}
		a.next = b // cycle
		return a
	}
	x, y := mk(), mk()
	for i := 0; i < 20; i++ { // map iteration order must not matter
		if String(x) != String(y) {
			t.Fatalf("isomorphic graphs dump differently:\n%s\n%s", String(x), String(y))
		}
	}
}

func TestDifferencesAreVisible(t *testing.T) {
	base := func() *node { return &node{name: "a", m: map[string]int{"x": 1}, s: []int{1, 2}, i: 1} }
	ref := String(base())
	for name, mut := range map[string]func(n *node){
		"unexported string": func(n *node) { n.name = "b" },
		"map value":         func(n *node) { n.m["x"] = 2 },
		"map key":           func(n *node) { delete(n.m, "x"); n.m["y"] = 1 },
		"nil map":           func(n *node) { n.m = nil },
		"slice elem":        func(n *node) { n.s[1] = 3 },
		"slice len":         func(n *node) { n.s = n.s[:1] },
		"nil vs empty":      func(n *node) { n.s = nil },
		"iface dyn type":    func(n *node) { n.i = int64(1) },
		"iface value":       func(n *node) { n.i = 2 },
		"pointer":           func(n *node) { n.next = &node{} },
		"func nil-ness":     func(n *node) { n.f = func() {} },
	} {
		n := base()
		mut(n)
		if String(n) == ref {
			t.Errorf("%s: change not visible in the dump %s", name, ref)
		}
	}
}

func TestAliasingIsPartOfTheKey(t *testing.T) {
	shared := &node{name: "s"}
	a := [2]*node{shared, shared}
	b := [2]*node{{name: "s"}, {name: "s"}}
	if String(a) == String(b) {
		t.Fatalf("aliasing not visible: %s", String(a))
	}
	m := map[string]int{"k": 1}
	if Values(m, m) == Values(m, map[string]int{"k": 1}) {
		t.Fatalf("aliasing between values not visible")
	}
}

func TestElemRenumbering(t *testing.T) {
	ren := func(vals ...int64) func(int64) string {
		seen := map[int64]int{}
		return func(v int64) string {
			if _, ok := seen[v]; !ok {
				seen[v] = len(seen)
			}
			return "#" + string(rune('a'+seen[v]))
		}
	}
	type q struct{ items []int }
	a := StringElems(q{[]int{5, 9, 5}}, ren())
	b := StringElems(q{[]int{1, 2, 1}}, ren())
	c := StringElems(q{[]int{1, 2, 2}}, ren())
	if a != b || a == c || !strings.Contains(a, "#a") {
		t.Fatalf("renumbering: %s / %s / %s", a, b, c)
	}
}
