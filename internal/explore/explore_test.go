package explore

import (
	"fmt"
	"reflect"
	"sort"
	"testing"
)

// a small irregular tree: the arity of later points depends on earlier answers
func irregular(c *Chooser) string {
	a := c.Choose(3, "a")
	s := fmt.Sprint(a)
	for i := 0; i <= a; i++ {
		b := c.Choose(2+i, fmt.Sprintf("b%d", i))
		s += fmt.Sprint(b)
		if b == 1 {
			s += "x" + fmt.Sprint(c.Choose(2, "x"))
		}
	}
	return s
}

func enumerate(opts Options, f func(c *Chooser) string) ([]string, Stats) {
	var out []string
	st := Run(opts, func(c *Chooser) { out = append(out, f(c)) })
	return out, st
}

// reference: recursive enumeration of the same tree without the explorer
func irregularRef() []string {
	var out []string
	var rec func(a, i int, s string)
	rec = func(a, i int, s string) {
		if i > a {
			out = append(out, s)
			return
		}
		for b := 0; b < 2+i; b++ {
			t := s + fmt.Sprint(b)
			if b == 1 {
				for x := 0; x < 2; x++ {
					rec(a, i+1, t+"x"+fmt.Sprint(x))
				}
			} else {
				rec(a, i+1, t)
			}
		}
	}
	for a := 0; a < 3; a++ {
		rec(a, 0, fmt.Sprint(a))
	}
	return out
}

func TestEnumeratesExactlyTheTree(t *testing.T) {
	got, st := enumerate(Options{Budget: -1}, irregular)
	want := irregularRef()
	if !reflect.DeepEqual(got, want) {
		t.Fatalf("enumeration differs from the recursive reference\n got %v\nwant %v", got, want)
	}
	if st.Leaves != int64(len(want)) || st.Capped {
		t.Fatalf("stats %+v, want %d leaves", st, len(want))
	}
	seen := map[string]bool{}
	for _, s := range got {
		if seen[s] {
			t.Fatalf("leaf %q executed twice", s)
		}
		seen[s] = true
	}
}

func TestDefaultFirstAndLexicographic(t *testing.T) {
	got, _ := enumerate(Options{Budget: -1}, func(c *Chooser) string {
		return fmt.Sprint(c.Choose(2, "p"), c.Choose(3, "q"))
	})
	want := []string{"0 0", "0 1", "0 2", "1 0", "1 1", "1 2"}
	if !reflect.DeepEqual(got, want) {
		t.Fatalf("got %v want %v", got, want)
	}
}

func binom(n, k int) int {
	if k < 0 || k > n {
		return 0
	}
	r := 1
	for i := 0; i < k; i++ {
		r = r * (n - i) / (i + 1)
	}
	return r
}

func TestDeviationBudgetIsExact(t *testing.T) {
	const n = 7
	for budget := 0; budget <= n; budget++ {
		var devs []int
		st := Run(Options{Budget: budget}, func(c *Chooser) {
			d := 0
			for i := 0; i < n; i++ {
				if c.ChooseDev(3, "d") != 0 {
					d++
				}
			}
			if d != c.Spent() {
				t.Fatalf("Spent()=%d, %d deviations answered", c.Spent(), d)
			}
			devs = append(devs, d)
		})
		want := 0
		for k := 0; k <= budget; k++ {
			want += binom(n, k) * (1 << k) // each deviating point has 2 non-default answers
		}
		if int(st.Leaves) != want {
			t.Fatalf("budget %d: %d leaves, want %d", budget, st.Leaves, want)
		}
		for _, d := range devs {
			if d > budget {
				t.Fatalf("budget %d: a case with %d deviations", budget, d)
			}
		}
	}
}

func TestFreeChoicesDoNotCost(t *testing.T) {
	st := Run(Options{Budget: 1}, func(c *Chooser) {
		c.Choose(4, "free")
		c.ChooseDev(2, "dev1")
		c.Choose(3, "free2")
		c.ChooseDev(2, "dev2")
	})
	// per (free,free2) pair: dev pattern 00, 10, 01 = 3
	if st.Leaves != 4*3*3 {
		t.Fatalf("%d leaves, want 36", st.Leaves)
	}
}

func TestShardsPartitionTheLeaves(t *testing.T) {
	all, _ := enumerate(Options{Budget: -1}, irregular)
	for _, n := range []int{2, 3, 5, 16} {
		count := map[string]int{}
		var totalMine int64
		for k := 0; k < n; k++ {
			st := Run(Options{Budget: -1, ShardIndex: k, ShardCount: n}, func(c *Chooser) {
				a := c.Choose(3, "a")
				b := c.Choose(2, "pre")
				mine := c.Mine()
				s := fmt.Sprint(a, b)
				for i := 0; i <= a; i++ {
					s += fmt.Sprint(c.Choose(2+i, "b"))
				}
				if mine {
					count[s]++
				}
			})
			totalMine += st.Mine
		}
		ref, _ := enumerate(Options{Budget: -1}, func(c *Chooser) string {
			a := c.Choose(3, "a")
			s := fmt.Sprint(a, c.Choose(2, "pre"))
			for i := 0; i <= a; i++ {
				s += fmt.Sprint(c.Choose(2+i, "b"))
			}
			return s
		})
		if len(count) != len(ref) || int(totalMine) != len(ref) {
			t.Fatalf("%d shards: %d distinct leaves executed (%d counted), want %d", n, len(count), totalMine, len(ref))
		}
		for _, s := range ref {
			if count[s] != 1 {
				t.Fatalf("%d shards: leaf %q executed %d times", n, s, count[s])
			}
		}
	}
	_ = all
}

func TestShardsAreBalancedOverPrefixes(t *testing.T) {
	const n = 4
	per := make([]int, n)
	for k := 0; k < n; k++ {
		Run(Options{Budget: -1, ShardIndex: k, ShardCount: n}, func(c *Chooser) {
			c.Choose(8, "p")
			if c.Mine() {
				per[k]++
			}
			c.Choose(5, "tail")
		})
	}
	for k := range per {
		if per[k] != 2*5 {
			t.Fatalf("shard sizes %v, want 10 each", per)
		}
	}
}

func TestReplayReproducesEveryLeaf(t *testing.T) {
	type leaf struct {
		s  string
		ch []int
	}
	var leaves []leaf
	Run(Options{Budget: -1}, func(c *Chooser) {
		s := irregular(c)
		leaves = append(leaves, leaf{s, c.Choices()})
	})
	for _, l := range leaves {
		got, st := enumerate(Options{Budget: -1, Fixed: l.ch}, irregular)
		if len(got) != 1 || got[0] != l.s || st.Leaves != 1 {
			t.Fatalf("replay of %v gave %v, want %q", l.ch, got, l.s)
		}
	}
	// trailing zeros may be omitted from a recorded vector
	got, _ := enumerate(Options{Budget: -1, Fixed: []int{2}}, irregular)
	if got[0] != "2000" {
		t.Fatalf("short replay gave %v", got)
	}
}

func expectDivergence(t *testing.T, f func()) {
	t.Helper()
	defer func() {
		r := recover()
		if _, ok := r.(Divergence); !ok {
			t.Fatalf("expected a Divergence panic, got %v", r)
		}
	}()
	f()
}

func TestDivergenceIsLoud(t *testing.T) {
	// case code that is not a function of its choices: arity changes between runs
	runs := 0
	expectDivergence(t, func() {
		Run(Options{Budget: -1}, func(c *Chooser) {
			runs++
			c.Choose(2, "a")
			if runs == 1 {
				c.Choose(2, "b")
			} else {
				c.Choose(3, "b")
			}
			c.Choose(2, "c")
		})
	})
	// a case that ends before the replayed prefix is consumed
	runs = 0
	expectDivergence(t, func() {
		Run(Options{Budget: -1}, func(c *Chooser) {
			runs++
			if runs == 1 {
				c.Choose(2, "a")
				c.Choose(2, "b")
				c.Choose(2, "c")
			}
		})
	})
	// recorded choice out of range
	expectDivergence(t, func() {
		Run(Options{Fixed: []int{5}}, func(c *Chooser) { c.Choose(2, "a") })
	})
}

func TestStopAndCaps(t *testing.T) {
	n := 0
	st := Run(Options{Budget: -1}, func(c *Chooser) {
		n++
		if c.Choose(10, "a") == 3 {
			c.Stop()
		}
	})
	if n != 4 || st.Capped {
		t.Fatalf("Stop: %d runs, capped=%v", n, st.Capped)
	}
	st = Run(Options{Budget: -1, MaxLeaves: 5}, func(c *Chooser) { c.Choose(10, "a") })
	if st.Leaves != 5 || !st.Capped {
		t.Fatalf("MaxLeaves: %+v", st)
	}
}

func TestLeavesSortedBySize(t *testing.T) {
	// with the default answer first, the first leaf is the all-default one
	var first []int
	Run(Options{Budget: -1}, func(c *Chooser) {
		irregular(c)
		if first == nil {
			first = c.Choices()
		}
	})
	if !sort.IntsAreSorted(first) || first[len(first)-1] != 0 {
		t.Fatalf("first leaf %v is not the all-default one", first)
	}
}
