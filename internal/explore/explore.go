// Package explore is engine E0: a stateless, exhaustive, choice-driven depth-first explorer.
//
// A case is ordinary Go code that asks the Chooser whenever something is unspecified (which
// statement comes next in a generated program, which option the player picks, which thread runs,
// which layout deviation is applied ...). Run executes the case code once per complete choice
// sequence, in lexicographic order with the default (0, the simplest alternative) first, so that
// enumeration order is also a size order. Nothing is sampled: the enumeration is complete within
// the numeric bounds the case code passes to Choose, unless a cap (deadline, max leaves) is hit,
// which is reported in Stats.
package explore

import (
	"fmt"
	"time"
)

// Divergence is the panic value raised when a replayed prefix does not meet the same choice
// points again: the case code is not a deterministic function of its choices. This is a harness
// error, never a property violation.
type Divergence struct{ Msg string }

func (d Divergence) Error() string { return "replay divergence: " + d.Msg }

// Options configure one exploration.
type Options struct {
	// Shard k of N: Chooser.Mine() is true for every N-th distinct prefix.
	ShardIndex, ShardCount int
	// Budget is the number of costly (deviating) choices allowed per case; <0 means unbounded.
	Budget int
	// Deadline, if non-zero, stops the enumeration cleanly (Stats.Capped).
	Deadline time.Time
	// MaxLeaves, if >0, stops after that many leaves (Stats.Capped).
	MaxLeaves int64
	// Fixed, if non-nil, runs exactly one case with these choices (replay mode).
	Fixed []int
}

// Stats describe what an exploration covered.
type Stats struct {
	Leaves       int64 // complete choice sequences executed (including the ones skipped by sharding)
	Mine         int64 // leaves whose shard prefix belonged to this shard
	ChoicePoints int64 // interior choice points met, summed over leaves
	MaxDepth     int
	Capped       bool
	CapReason    string
}

type point struct {
	n      int
	choice int
	label  string
	cost   int
}

// Chooser answers the questions of one case.
type Chooser struct {
	ex     *explorer
	pos    int
	spent  int
	mineAt int // position of the shard point in this run, -1 if none
	mine   bool
}

type explorer struct {
	opts       Options
	stack      []point // the current choice sequence
	stats      Stats
	prefixSeen int64 // number of distinct shard prefixes seen so far
	lastShard  []int // choices of the last shard prefix
	haveShard  bool
	stopped    bool
}

// Choose returns a number in [0,n). n<=1 creates no choice point.
func (c *Chooser) Choose(n int, label string) int { return c.choose(n, label, 0) }

// ChooseDev is like Choose, but every non-zero answer costs one unit of the deviation budget;
// when the budget is spent it answers 0 without creating a choice point.
func (c *Chooser) ChooseDev(n int, label string) int { return c.choose(n, label, 1) }

// Spent returns the number of deviation units used so far in this case.
func (c *Chooser) Spent() int { return c.spent }

func (c *Chooser) choose(n int, label string, cost int) int {
	if n <= 1 {
		return 0
	}
	ex := c.ex
	if cost > 0 && ex.opts.Budget >= 0 && c.spent+cost > ex.opts.Budget {
		return 0
	}
	if c.pos < len(ex.stack) {
		p := &ex.stack[c.pos]
		if p.n != n || p.label != label {
			panic(Divergence{fmt.Sprintf("position %d: expected (%d,%q), met (%d,%q)", c.pos, p.n, p.label, n, label)})
		}
		c.pos++
		if p.choice != 0 {
			c.spent += cost
		}
		return p.choice
	}
	if ex.opts.Fixed != nil {
		// replay mode: choices beyond the recorded ones are 0 but must be recorded for diagnostics
		ch := 0
		if c.pos < len(ex.opts.Fixed) {
			ch = ex.opts.Fixed[c.pos]
			if ch >= n {
				panic(Divergence{fmt.Sprintf("position %d: recorded choice %d out of range %d (%q)", c.pos, ch, n, label)})
			}
		}
		ex.stack = append(ex.stack, point{n: n, choice: ch, label: label, cost: cost})
		c.pos++
		if ch != 0 {
			c.spent += cost
		}
		return ch
	}
	ex.stack = append(ex.stack, point{n: n, choice: 0, label: label, cost: cost})
	c.pos++
	return 0
}

// Mine marks the end of the cheap, generating prefix of a case and tells whether the case belongs
// to this shard. Distinct prefixes are dealt round-robin to the shards. It must be called at most
// once per case, and the case must not depend on the answer for anything but skipping work.
func (c *Chooser) Mine() bool {
	ex := c.ex
	c.mineAt = c.pos
	same := ex.haveShard && len(ex.lastShard) == c.pos
	if same {
		for i := 0; i < c.pos; i++ {
			if ex.lastShard[i] != ex.stack[i].choice {
				same = false
				break
			}
		}
	}
	if !same {
		if ex.haveShard {
			ex.prefixSeen++
		}
		ex.haveShard = true
		ex.lastShard = ex.lastShard[:0]
		for i := 0; i < c.pos; i++ {
			ex.lastShard = append(ex.lastShard, ex.stack[i].choice)
		}
	}
	if ex.opts.ShardCount <= 1 || ex.opts.Fixed != nil {
		c.mine = true
	} else {
		c.mine = int(ex.prefixSeen%int64(ex.opts.ShardCount)) == ex.opts.ShardIndex
	}
	return c.mine
}

// Stop ends the whole exploration after the current case (used once a search has found what it
// was looking for); Stats.Capped is not set by it.
func (c *Chooser) Stop() { c.ex.stopped = true }

// Choices returns a copy of the choice sequence of the current case (so far).
func (c *Chooser) Choices() []int {
	out := make([]int, c.pos)
	for i := 0; i < c.pos; i++ {
		out[i] = c.ex.stack[i].choice
	}
	return out
}

// Run enumerates all cases of f.
func Run(opts Options, f func(c *Chooser)) Stats {
	ex := &explorer{opts: opts}
	if opts.Fixed != nil {
		c := &Chooser{ex: ex, mineAt: -1, mine: true}
		f(c)
		ex.stats.Leaves, ex.stats.Mine = 1, 1
		return ex.stats
	}
	for {
		c := &Chooser{ex: ex, mineAt: -1, mine: true}
		f(c)
		if ex.stopped {
			ex.stats.Leaves++
			return ex.stats
		}
		if c.pos < len(ex.stack) {
			panic(Divergence{fmt.Sprintf("case ended after %d choice points, %d expected", c.pos, len(ex.stack))})
		}
		ex.stats.Leaves++
		if c.mine {
			ex.stats.Mine++
		}
		ex.stats.ChoicePoints += int64(len(ex.stack))
		if len(ex.stack) > ex.stats.MaxDepth {
			ex.stats.MaxDepth = len(ex.stack)
		}
		// advance the odometer: last position that still has an affordable alternative
		i := len(ex.stack) - 1
		for ; i >= 0; i-- {
			p := &ex.stack[i]
			if p.choice+1 < p.n {
				if p.cost > 0 && p.choice == 0 && ex.opts.Budget >= 0 {
					// would start deviating here: check the budget spent before position i
					spent := 0
					for j := 0; j < i; j++ {
						if ex.stack[j].choice != 0 {
							spent += ex.stack[j].cost
						}
					}
					if spent+p.cost > ex.opts.Budget {
						continue
					}
				}
				p.choice++
				ex.stack = ex.stack[:i+1]
				break
			}
		}
		if i < 0 {
			return ex.stats
		}
		if opts.MaxLeaves > 0 && ex.stats.Leaves >= opts.MaxLeaves {
			ex.stats.Capped, ex.stats.CapReason = true, fmt.Sprintf("max leaves %d", opts.MaxLeaves)
			return ex.stats
		}
		if !opts.Deadline.IsZero() && ex.stats.Leaves%64 == 0 && time.Now().After(opts.Deadline) {
			ex.stats.Capped, ex.stats.CapReason = true, "deadline"
			return ex.stats
		}
	}
}
