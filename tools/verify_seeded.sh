#!/bin/bash
# usage: tools/verify_seeded.sh <dir with X.patch.diff, X.demo_test.go.txt> <X>
# Confirms in a scratch worktree of /repo: the patch applies and compiles, the repository's own tests pass with it,
# the demonstration fails with it and passes without it. Prints one summary line; exit 0 iff all four hold.
export GOFLAGS=-mod=mod GOPROXY=off GOSUMDB=off GOTOOLCHAIN=local
D="$1"; X="$2"
W=/tmp/vseed-$$
git -C /repo worktree add -q --detach "$W" HEAD || exit 2
trap 'git -C /repo worktree remove --force "$W" >/dev/null 2>&1' EXIT
demo="$D/$X.demo_test.go.txt"
place=$(head -5 "$demo" | grep -o 'place at: [^ ]*' | head -1 | sed 's/place at: //')
rel=$(echo "$place" | sed -E 's#^/tmp/mut[0-9]*/C[0-9]+/##; s#^/<worktree>/##; s#^<worktree>/##')
[ -z "$rel" ] && { echo "$D $X: cannot find the demo placement"; exit 2; }
pkgdir=$(dirname "$rel")
run_demo() { (cd "$W/$pkgdir" && go test -vet=off -count=1 -run 'Mutant|Demo' . 2>&1 | tail -3); }
race=""
grep -q -- "-race" <(head -5 "$demo") && race="-race"
run_demo() { (cd "$W/$pkgdir" && go test $race -vet=off -count=1 -run 'Mutant|Demo' . > "$W/demo.out" 2>&1; echo $?); }
cp "$demo" "$W/$rel"
clean=$(run_demo)
git -C "$W" apply "$D/$X.patch.diff" || { echo "$D $X: patch does not apply"; exit 1; }
(cd "$W" && go build ./... ) || { echo "$D $X: does not compile"; exit 1; }
rm -f "$W/$rel"
tests=$(/verif/tools/baseline.sh "$W" | head -1)
cp "$demo" "$W/$rel"
mut=$(run_demo)
ok=1
[ "$clean" = 0 ] || ok=0
[ "$mut" != 0 ] || ok=0
echo "$tests" | grep -q "pass=272 fail=0" || ok=0
echo "$(basename $(dirname $D))/$X: demo_without_change_exit=$clean demo_with_change_exit=$mut tests_with_change: $tests race=$race => $([ $ok = 1 ] && echo CONFIRMED || echo NOT-CONFIRMED)"
[ $ok = 1 ]
