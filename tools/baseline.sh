#!/bin/bash
# Runs the repository's own test suite (guard OFF) and prints the number of passing tests.
# usage: tools/baseline.sh [repo-dir]
export GOFLAGS=-mod=mod GOPROXY=off GOSUMDB=off GOTOOLCHAIN=local
REPO=${1:-/repo}
cd "$REPO" || exit 2
out=$(go test -json -vet=off -count=1 -timeout 25m ./... 2>&1)
pass=$(printf '%s\n' "$out" | grep -c '"Action":"pass","Package":"[^"]*","Test"')
fail=$(printf '%s\n' "$out" | grep -c '"Action":"fail"')
echo "pass=$pass fail=$fail"
if [ "$fail" != 0 ]; then printf '%s\n' "$out" | grep '"Action":"fail"' | head -20; exit 1; fi
[ "$pass" -ge 272 ] || { echo "expected >= 272 passing tests"; exit 1; }
