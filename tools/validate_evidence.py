#!/usr/bin/env python3
import json, sys, glob, jsonschema
schema = json.load(open('/root/.vp/EVIDENCE.schema.json'))
bad = 0
for f in sorted(glob.glob('/verif/evidence/*.json')):
    try:
        ev = json.load(open(f)); jsonschema.validate(ev, schema)
        c = ev['coverage']
        print(f"{f}: ok tier={ev['tier']} evals={c.get('evaluations')} nontrivial={c.get('distinct_nontrivial')} states={c.get('states')} exhaustive={c.get('exhaustive')} wall={ev['wall_s']:.1f}")
    except Exception as e:
        bad += 1; print(f"{f}: INVALID {str(e)[:300]}")
sys.exit(1 if bad else 0)
