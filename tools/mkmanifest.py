#!/usr/bin/env python3
"""Generates /verif/MANIFEST.json from the table below and validates it against the schema."""
import json, os, sys
ROOT = os.path.dirname(os.path.dirname(os.path.abspath(__file__)))
props = [json.loads(l) for l in open(os.path.join(ROOT, 'properties.jsonl'))]
table = json.load(open(os.path.join(ROOT, 'tools', 'checks_table.json')))
checks, na = [], []
for p in props:
    pid = p['id']
    t = table.get(pid)
    if not t or t.get('not_applicable'):
        na.append({"property_id": pid, "reason": (t or {}).get('not_applicable', 'check not built yet (work in progress)')})
        continue
    checks.append({
        "property_id": pid,
        "quick_cmd": f"./check {pid} quick",
        "thorough_cmd": f"./check {pid} thorough",
        "evidence_file": f"/verif/evidence/{pid}.json",
        "replay_cmd_template": f"./check {pid} --replay {{path}}",
        "engine": t['engine'],
        "level_claimed": {"category": t.get('category', 'model_checking'), "text": t['level_text'], "design_ref": t.get('design_ref', 'DESIGN.md section 4 ' + pid)},
        "level_note": t['level_note'],
        "technique": t['technique'],
    })
m = {
    "version": 1,
    "setup_cmd": "./setup.sh",
    "hooks": {
        "guard": "verif",
        "enable": "no source hooks: checks build a harness module (replace github.com/remieven/ysgo => /repo) against the current working tree; the schedule checks (C10, C18) generate a go build -overlay from the current /repo sources on every run",
        "baseline_off_cmd": "cd /repo && GOFLAGS=-mod=mod GOPROXY=off GOSUMDB=off GOTOOLCHAIN=local go test -json -vet=off -count=1 -timeout 25m ./...",
        "source_commits": [],
        "add_only": True,
    },
    "engines": table.get('_engines', []),
    "checks": checks,
    "not_applicable": na,
    "notes": table.get('_notes', ''),
}
out = os.path.join(ROOT, 'MANIFEST.json')
json.dump(m, open(out, 'w'), indent=1)
try:
    import jsonschema
    jsonschema.validate(m, json.load(open('/root/.vp/MANIFEST.schema.json')))
    print("MANIFEST.json valid:", len(checks), "checks,", len(na), "not applicable")
except ImportError:
    print("MANIFEST.json written (jsonschema not available for validation)")
