#!/bin/bash
# usage: tools/try_mutant.sh <patch-file|@commit> <ID> [tier]   -- run a check against a scratch copy of /repo with a patch applied
# The scratch worktree lives in /tmp/vrepo-<ID> and is removed afterwards.
PATCH="$1"; ID="$2"; TIER="${3:-quick}"
W=/tmp/vrepo-$ID-$$
git -C /repo worktree add -q --detach "$W" HEAD || exit 2
if [[ "$PATCH" == @* ]]; then
  git -C "$W" checkout -q "${PATCH#@}" || exit 2
else
  git -C "$W" apply "$PATCH" || { echo "patch does not apply"; git -C /repo worktree remove --force "$W"; exit 2; }
fi
cd "$(dirname "$0")/.." && VERIF_REPO="$W" ./check "$ID" "$TIER"
rc=$?
git -C /repo worktree remove --force "$W"
TAG=$(printf '%s' "$W" | cksum | cut -d' ' -f1)
rm -f ".work/alt-$TAG.mod" ".work/alt-$TAG.sum" ".work/bin/vcheck-$TAG" .work/bin/vcheck-sched-*-"$TAG" .work/bin/vrace-*-"$TAG"; rm -rf .work/overlay-*-"$TAG"
echo "exit=$rc"
exit $rc
