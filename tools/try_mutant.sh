#!/bin/bash
# usage: tools/try_mutant.sh <patch-file|@commit> <ID> [tier]   -- run a check against a scratch copy of /repo with a patch applied
# The scratch worktree lives in /tmp/vrepo-<ID> and is removed afterwards.
PATCH="$1"; ID="$2"; TIER="${3:-quick}"
W=/tmp/vrepo-$ID-$$
git -C /repo worktree add -q --detach "$W" HEAD || exit 2
if [[ "$PATCH" == @* ]]; then
  git -C "$W" checkout -q "${PATCH#@}" || exit 2
else
  git -C "$W" apply "$PATCH" || { echo "patch does not apply"; git -C /repo worktree remove --force "$W"; exit 2; }
fi
cd /verif && VERIF_REPO="$W" ./check "$ID" "$TIER"
rc=$?
git -C /repo worktree remove --force "$W"
rm -f /verif/.work/alt-*.mod /verif/.work/alt-*.sum
echo "exit=$rc"
exit $rc
