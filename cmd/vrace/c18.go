package main

import (
	"bytes"
	"fmt"
	"os"
	"os/exec"
	"strconv"
	"strings"
	"sync"

	"github.com/remieven/ysgo/verifx/internal/checks"
)

// raceC18 creates and drives independent runners from several goroutines at once. A process can only once be
// cold (the very first parses race for the lazily built static data of the recognisers, the very first use of a
// feature races for whatever the library builds lazily for it), so the pass runs several fresh child processes,
// each in one of two modes and with another rotation of the tasks over the goroutines:
//
//	free     every goroutine creates and steps its runner as fast as it can (creations overlap steppings)
//	barrier  every goroutine creates its runner, all wait for one another, then all step at once (the first calls
//	         of Next of the process overlap; nothing but the barrier orders the goroutines)
func raceC18(tier string) {
	if mode := os.Getenv("VRACE_C18_MODE"); mode != "" {
		rot, _ := strconv.Atoi(os.Getenv("VRACE_C18_ROT"))
		raceC18Child(tier, mode, rot)
		return
	}
	type cfg struct {
		mode string
		rot  int
	}
	cfgs := []cfg{{"free", 0}, {"barrier", 0}, {"barrier", 4}, {"barrier", 9}}
	if tier == "thorough" {
		for r := 1; r <= 10; r++ {
			cfgs = append(cfgs, cfg{"barrier", r}, cfg{"free", r})
		}
	}
	total := 0
	var mu sync.Mutex
	var wg sync.WaitGroup
	sem := make(chan struct{}, 4)
	for _, c := range cfgs {
		wg.Add(1)
		go func(c cfg) {
			defer wg.Done()
			sem <- struct{}{}
			defer func() { <-sem }()
			cmd := exec.Command(os.Args[0], "C18", tier)
			cmd.Env = append(os.Environ(), "VRACE_C18_MODE="+c.mode, "VRACE_C18_ROT="+strconv.Itoa(c.rot))
			var so, se bytes.Buffer
			cmd.Stdout, cmd.Stderr = &so, &se
			err := cmd.Run()
			mu.Lock()
			defer mu.Unlock()
			os.Stderr.Write(se.Bytes())
			runs := -1
			for _, line := range strings.Split(so.String(), "\n") {
				var k int
				if _, e := fmt.Sscanf(line, "RACE-RUNS %d", &k); e == nil {
					runs = k
					continue
				}
				if line != "" {
					fmt.Println(line)
				}
			}
			if runs >= 0 {
				total += runs
			}
			raced := strings.Contains(se.String(), "WARNING: DATA RACE") || strings.Contains(se.String(), "fatal error: concurrent map")
			if (err != nil || runs < 0) && !raced {
				fmt.Printf("RACE-HARNESS-ERROR child %s/%d failed: %v: %s\n", c.mode, c.rot, err, tail(se.String(), 600))
			}
		}(c)
	}
	wg.Wait()
	fmt.Printf("RACE-RUNS %d\n", total)
}

func tail(s string, n int) string {
	if len(s) > n {
		return s[len(s)-n:]
	}
	return s
}

func raceC18Child(tier, mode string, rot int) {
	rounds, goroutines := 6, 8
	if tier == "thorough" {
		rounds = 20
	}
	names, tasks := checks.C18RaceTasksHooked()
	runs := 0
	var mu sync.Mutex
	got := map[string]map[string]int{}
	record := func(i int, tr string) {
		mu.Lock()
		if got[names[i]] == nil {
			got[names[i]] = map[string]int{}
		}
		got[names[i]][tr]++
		runs++
		mu.Unlock()
	}
	for r := 0; r < rounds; r++ {
		var wg sync.WaitGroup
		switch mode {
		case "free":
			for g := 0; g < goroutines; g++ {
				wg.Add(1)
				go func(g int) {
					defer wg.Done()
					// no lock is taken between the tasks of one goroutine: the results are recorded at the end
					type res struct {
						i  int
						tr string
					}
					var mine []res
					for k := 0; k < len(tasks); k++ {
						i := (g + k + r + rot) % len(tasks)
						mine = append(mine, res{i, tasks[i](func(int) {})})
					}
					for _, m := range mine {
						record(m.i, m.tr)
					}
				}(g)
			}
		case "barrier":
			// one task per goroutine and round; everyone waits after its creation until all have created
			var arrived sync.WaitGroup
			arrived.Add(goroutines)
			release := make(chan struct{})
			go func() { arrived.Wait(); close(release) }()
			for g := 0; g < goroutines; g++ {
				wg.Add(1)
				go func(g int) {
					defer wg.Done()
					i := (g + r*goroutines + rot) % len(tasks)
					once := false
					arrive := func() {
						if !once {
							once = true
							arrived.Done()
							<-release
						}
					}
					tr := tasks[i](func(call int) {
						if call == 1 {
							arrive()
						}
					})
					arrive() // a task whose load failed never makes a second call
					record(i, tr)
				}(g)
			}
		}
		wg.Wait()
	}
	for i, n := range names {
		alone := tasks[i](func(int) {})
		for tr := range got[n] {
			if tr != alone {
				fmt.Printf("RACE-TRACE-MISMATCH task %q (%s mode): concurrently %s; alone %s\n", n, mode, tr, alone)
			}
		}
	}
	fmt.Printf("RACE-RUNS %d\n", runs)
}
