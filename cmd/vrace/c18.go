package main

import (
	"fmt"
	"sync"

	"github.com/remieven/ysgo/verifx/internal/checks"
)

// raceC18 creates and drives independent runners from several goroutines at once, starting cold
// (the very first parses of the process race for the lazily built static data of the recognisers).
func raceC18(tier string) {
	rounds, goroutines := 6, 8
	if tier == "thorough" {
		rounds = 40
	}
	names, tasks := checks.C18RaceTasks()
	// cold start: no task has run yet in this process; the reference traces are taken from the
	// first concurrent round itself and compared later with a sequential run
	runs := 0
	var mu sync.Mutex
	got := map[string]map[string]int{}
	for r := 0; r < rounds; r++ {
		var wg sync.WaitGroup
		for g := 0; g < goroutines; g++ {
			wg.Add(1)
			go func(g int) {
				defer wg.Done()
				for k := 0; k < len(tasks); k++ {
					i := (g + k + r) % len(tasks)
					tr := tasks[i]()
					mu.Lock()
					if got[names[i]] == nil {
						got[names[i]] = map[string]int{}
					}
					got[names[i]][tr]++
					runs++
					mu.Unlock()
				}
			}(g)
		}
		wg.Wait()
	}
	for i, n := range names {
		alone := tasks[i]()
		for tr := range got[n] {
			if tr != alone {
				fmt.Printf("RACE-TRACE-MISMATCH task %q: concurrently %s; alone %s\n", n, tr, alone)
			}
		}
	}
	fmt.Printf("RACE-RUNS %d\n", runs)
}
