package main

import (
	"errors"
	"fmt"
	"strings"
	"sync/atomic"
	"time"

	"github.com/remieven/ysgo"
	"github.com/remieven/ysgo/variable"
)

var errH = errors.New("handler failure")

// raceC10 drives pending commands of every handler shape with real goroutines and real time while
// the host polls Next: the race detector watches the runner and the handler goroutines.
func raceC10(tier string) {
	reps := 30
	if tier == "thorough" {
		reps = 300
	}
	script := "title: A\n---\n<<set $k = 0>>\nL0\n<<c1 7 true>>\n<<set $k += 1>>\nL1 {$k}\n<<c2 7 true>>\n<<set $k += 1>>\nL2 {$k}\n<<wait 0.002>>\nL3\n===\n"
	runs := 0
	for rep := 0; rep < reps; rep++ {
		for shape1 := 0; shape1 < 6; shape1++ {
			shape2 := (shape1 + rep) % 6
			dr, err := ysgo.NewDialogueRunner(nil, "abc", strings.NewReader(script))
			if err != nil {
				fmt.Println("RACE-HARNESS-ERROR", err)
				return
			}
			var invoked atomic.Int32
			install := func(name string, shape int, delay time.Duration) {
				switch shape {
				case 0:
					dr.AddCommand(name, func(args []*variable.Value) <-chan error {
						invoked.Add(1)
						ch := make(chan error, 1)
						go func() { time.Sleep(delay); ch <- nil }()
						return ch
					})
				case 1:
					dr.AddCommand(name, func(args []*variable.Value) <-chan error {
						invoked.Add(1)
						ch := make(chan error)
						go func() { time.Sleep(delay); close(ch) }()
						return ch
					})
				case 2:
					dr.ConvertAndAddCommand(name, func(i int, b bool) { invoked.Add(1); time.Sleep(delay) })
				case 3:
					dr.ConvertAndAddCommand(name, func(i int, b bool) error { invoked.Add(1); time.Sleep(delay); return errH })
				case 4:
					dr.ConvertAndAddCommand(name, func(i int, b bool) <-chan error {
						invoked.Add(1)
						ch := make(chan error, 1)
						go func() { time.Sleep(delay); ch <- errH }()
						return ch
					})
				case 5:
					dr.ConvertAndAddCommand(name, func(i int, b bool) chan error {
						invoked.Add(1)
						ch := make(chan error, 1)
						ch <- nil
						return ch
					})
				}
			}
			install("c1", shape1, time.Duration(rep%5)*50*time.Microsecond)
			install("c2", shape2, time.Duration((rep+2)%4)*30*time.Microsecond)
			deadline := time.Now().Add(5 * time.Second)
			for time.Now().Before(deadline) {
				el, err := dr.Next(0)
				if err == nil && el == nil {
					break
				}
				if errors.Is(err, ysgo.ErrWaitingForCommandCompletion) {
					time.Sleep(10 * time.Microsecond)
				}
			}
			runs++
		}
	}
	fmt.Printf("RACE-RUNS %d\n", runs)
}
