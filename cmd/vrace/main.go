// vrace is the free-running complement of the schedule checks: the same scenarios with plain
// goroutines, built with -race. It reports data races (the Go detector has no false positives)
// and fatal concurrent-map errors; its silence is not a coverage claim.
package main

import (
	"fmt"
	"os"
)

func main() {
	if len(os.Args) < 3 {
		fmt.Println("usage: vrace C10|C18 quick|thorough")
		os.Exit(2)
	}
	switch os.Args[1] {
	case "C10":
		raceC10(os.Args[2])
	case "C18":
		raceC18(os.Args[2])
	default:
		os.Exit(2)
	}
}
