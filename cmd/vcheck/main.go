// vcheck runs one property check: as driver (spawns worker processes, merges, writes evidence),
// as worker (explores one shard) or in replay mode.
package main

import (
	"bufio"
	"bytes"
	"encoding/json"
	"fmt"
	"os"
	"os/exec"
	"path/filepath"
	"runtime"
	"runtime/debug"
	"strconv"
	"strings"
	"sync"
	"time"

	"github.com/remieven/ysgo/verifx/internal/checks"
	"github.com/remieven/ysgo/verifx/internal/report"
)

func usage() {
	fmt.Println("usage: vcheck <ID> quick|thorough [--worker k/n] | vcheck <ID> --replay <file> | vcheck list")
	os.Exit(2)
}

func root() string {
	if r := os.Getenv("VERIF_ROOT"); r != "" {
		return r
	}
	wd, _ := os.Getwd()
	return wd
}

func main() {
	if len(os.Args) < 2 {
		usage()
	}
	if os.Args[1] == "list" {
		for _, id := range checks.IDs() {
			fmt.Println(id)
		}
		return
	}
	if len(os.Args) < 3 {
		usage()
	}
	id := os.Args[1]
	chk, ok := checks.Registry[id]
	if !ok {
		fmt.Println("unknown check", id)
		os.Exit(2)
	}
	seed, _ := strconv.ParseInt(os.Getenv("VERIF_SEED"), 10, 64)
	if os.Args[2] == "--replay" {
		if len(os.Args) < 4 {
			usage()
		}
		os.Exit(replay(chk, os.Args[3], seed))
	}
	tier := os.Args[2]
	if t := os.Getenv("VERIF_TIER"); t == "quick" || t == "thorough" {
		// the command line wins; VERIF_TIER is only used when the tier argument is "auto"
		if tier == "auto" {
			tier = t
		}
	}
	if tier != "quick" && tier != "thorough" {
		usage()
	}
	if len(os.Args) >= 5 && os.Args[3] == "--worker" {
		var k, n int
		fmt.Sscanf(os.Args[4], "%d/%d", &k, &n)
		worker(chk, tier, seed, k, n)
		return
	}
	os.Exit(drive(chk, tier, seed))
}

func budget(chk *checks.Check, tier string) time.Duration {
	if s := os.Getenv("VERIF_BUDGET_S"); s != "" {
		if v, err := strconv.Atoi(s); err == nil && v > 0 {
			return time.Duration(v) * time.Second
		}
	}
	if tier == "thorough" {
		if chk.ThoroughBudget > 0 {
			return chk.ThoroughBudget
		}
		return 10 * time.Minute
	}
	if chk.QuickBudget > 0 {
		return chk.QuickBudget
	}
	return 60 * time.Second
}

func worker(chk *checks.Check, tier string, seed int64, k, n int) {
	debug.SetMaxStack(256 << 20)
	realStderr := os.Stderr
	if dn, err := os.OpenFile(os.DevNull, os.O_WRONLY, 0); err == nil {
		os.Stderr = dn // ANTLR's console listeners write here; runtime crashes still go to fd 2
	}
	var deadline time.Time
	if s := os.Getenv("VERIF_DEADLINE_UNIX"); s != "" {
		if v, err := strconv.ParseInt(s, 10, 64); err == nil {
			deadline = time.Unix(v, 0)
		}
	}
	ctx := report.NewCtx(chk.Meta.Property, tier, seed, k, n, deadline)
	// watchdog: no progress for a long time = the code under test hangs (or the harness does)
	hang := 240 * time.Second
	if s := os.Getenv("VERIF_HANG_S"); s != "" {
		if v, err := strconv.Atoi(s); err == nil {
			hang = time.Duration(v) * time.Second
		}
	}
	go func() {
		last, since := ctx.Progress.Load(), time.Now()
		for {
			time.Sleep(500 * time.Millisecond)
			if p := ctx.Progress.Load(); p != last {
				last, since = p, time.Now()
			} else if time.Since(since) > hang {
				fmt.Fprintf(realStderr, "\nVCHECK-HANG case=%s\n", strings.ReplaceAll(ctx.CurrentCase(), "\n", "\\n"))
				os.Exit(3)
			}
		}
	}()
	func() {
		defer func() {
			if r := recover(); r != nil {
				ctx.HarnessError("worker %d: unexpected panic in harness: %v\n%s", k, r, debug.Stack())
			}
		}()
		if tier == "thorough" && os.Getenv("VERIF_NO_QUICK_PASS") == "" {
			// a thorough run covers at least what the quick tier covers: everything once at the quick bounds (with the
			// quick budget, doubled), then the deep pass with what remains of the thorough budget
			full := ctx.Deadline
			qb := chk.QuickBudget
			if qb == 0 {
				qb = 60 * time.Second
			}
			ctx.QuickPass = true
			ctx.Deadline = time.Now().Add(2 * qb)
			if !full.IsZero() && ctx.Deadline.After(full) {
				ctx.Deadline = full
			}
			chk.Run(ctx)
			ctx.QuickPass = false
			ctx.Deadline = full
			ctx.Bound("thorough_runs_everything_at_the_quick_bounds_first", true)
		}
		chk.Run(ctx)
	}()
	out := bufio.NewWriter(os.Stdout)
	b, err := json.Marshal(ctx.Finish())
	if err != nil {
		fmt.Fprintln(realStderr, "cannot marshal result:", err)
		os.Exit(2)
	}
	out.WriteString("RESULT ")
	out.Write(b)
	out.WriteString("\n")
	out.Flush()
}

type workerOutcome struct {
	res    *report.Result
	err    error
	stderr string
	code   int
}

func runWorker(chk *checks.Check, tier string, k, n int, deadline time.Time, extraEnv ...string) workerOutcome {
	self, _ := os.Executable()
	cmd := exec.Command(self, chk.Meta.Property, tier, "--worker", fmt.Sprintf("%d/%d", k, n))
	procs := chk.ProcsPerWorker
	if procs <= 0 {
		procs = 2
	}
	cmd.Env = append(os.Environ(), "GOMAXPROCS="+strconv.Itoa(procs), "VERIF_DEADLINE_UNIX="+strconv.FormatInt(deadline.Unix(), 10), "GOTRACEBACK=single")
	cmd.Env = append(cmd.Env, extraEnv...)
	var stdout, stderr bytes.Buffer
	cmd.Stdout, cmd.Stderr = &stdout, &stderr
	err := cmd.Run()
	o := workerOutcome{err: err, stderr: headTail(stderr.String(), 1500, 1500)}
	if ee, ok := err.(*exec.ExitError); ok {
		o.code = ee.ExitCode()
	}
	for _, line := range strings.Split(stdout.String(), "\n") {
		if strings.HasPrefix(line, "RESULT ") {
			var r report.Result
			if e := json.Unmarshal([]byte(line[7:]), &r); e == nil {
				o.res = &r
			} else {
				o.err = fmt.Errorf("bad result line: %v", e)
			}
		}
	}
	return o
}

func headTail(s string, h, t int) string {
	if len(s) > h+t {
		return s[:h] + " …… " + s[len(s)-t:]
	}
	return s
}

func drive(chk *checks.Check, tier string, seed int64) int {
	start := time.Now()
	rt := root()
	n := chk.Workers
	if n <= 0 {
		n = runtime.NumCPU()
		if n > 16 {
			n = 16
		}
	}
	if s := os.Getenv("VERIF_WORKERS"); s != "" {
		if v, err := strconv.Atoi(s); err == nil && v > 0 {
			n = v
		}
	}
	deadline := start.Add(budget(chk, tier))
	outs := make([]workerOutcome, n)
	var wg sync.WaitGroup
	for k := 0; k < n; k++ {
		wg.Add(1)
		go func(k int) {
			defer wg.Done()
			outs[k] = runWorker(chk, tier, k, n, deadline)
		}(k)
	}
	wg.Wait()
	var results []*report.Result
	var crashes []report.Violation
	harness := []string{}
	os.MkdirAll(filepath.Join(rt, ".work"), 0o755)
	for k, o := range outs {
		if o.res != nil && o.err == nil {
			results = append(results, o.res)
			continue
		}
		// the worker died: re-run it with a write-ahead case log to find the culprit
		tf := filepath.Join(rt, ".work", fmt.Sprintf("trace-%s-%d.log", chk.Meta.Property, k))
		o2 := runWorker(chk, tier, k, n, time.Now().Add(budget(chk, tier)), "VERIF_TRACE_FILE="+tf)
		if o2.res != nil && o2.err == nil {
			// did not crash again: not reproducible = harness problem, not a violation
			harness = append(harness, fmt.Sprintf("worker %d died (exit %d) but the re-run succeeded; stderr: %s", k, o.code, o.stderr))
			results = append(results, o2.res)
			os.Remove(tf)
			continue
		}
		culprit := lastLine(tf)
		os.Remove(tf)
		clause := "crash"
		if o2.code == 3 || strings.Contains(o2.stderr, "VCHECK-HANG") {
			clause = "hang"
		}
		if culprit == "" || !chk.CrashIsViolation {
			harness = append(harness, fmt.Sprintf("worker %d died twice (exit %d/%d), culprit case %q; stderr: %s", k, o.code, o2.code, culprit, o2.stderr))
			continue
		}
		crashes = append(crashes, report.Violation{Property: chk.Meta.Property, Clause: clause, Witness: culprit, Tier: tier,
			Detail: "the process running the code under test died or hung on this case: " + firstLines(o2.stderr, 6)})
		results = append(results, &report.Result{Worker: k, Capped: true, CapReasons: []string{"worker " + strconv.Itoa(k) + " died: shard not completed"}})
	}
	// the free-running -race complement of the schedule checks
	if rb := os.Getenv("VERIF_RACE_BIN"); rb != "" && chk.RacePass {
		cmd := exec.Command(rb, chk.Meta.Property, tier)
		cmd.Env = append(os.Environ(), "GORACE=halt_on_error=0 exitcode=66 history_size=3")
		var so, se bytes.Buffer
		cmd.Stdout, cmd.Stderr = &so, &se
		rerr := cmd.Run()
		rr := &report.Result{Worker: n, Counters: map[string]int64{}, Skipped: map[string]int64{}, Bounds: map[string]any{}}
		for _, line := range strings.Split(so.String(), "\n") {
			var k int64
			if _, e := fmt.Sscanf(line, "RACE-RUNS %d", &k); e == nil {
				rr.Counters["race_pass_runs"] = k
			}
			if strings.HasPrefix(line, "RACE-TRACE-MISMATCH") {
				rr.Violations = append(rr.Violations, report.Violation{Property: chk.Meta.Property, Clause: "free-running-trace", Witness: headTail(line, 200, 0), Detail: line, Tier: tier, Part: "race"})
			}
			if strings.HasPrefix(line, "RACE-HARNESS-ERROR") {
				rr.HarnessErrors = append(rr.HarnessErrors, line)
			}
		}
		stderr := se.String()
		switch {
		case strings.Contains(stderr, "WARNING: DATA RACE"):
			rr.Violations = append(rr.Violations, report.Violation{Property: chk.Meta.Property, Clause: "data-race", Witness: raceWitness(stderr), Tier: tier, Part: "race",
				Detail: "the race detector reported a data race in the free-running pass: " + headTail(stderr, 2500, 0)})
		case strings.Contains(stderr, "fatal error: concurrent map"):
			rr.Violations = append(rr.Violations, report.Violation{Property: chk.Meta.Property, Clause: "data-race", Witness: "concurrent map access", Tier: tier, Part: "race", Detail: headTail(stderr, 1500, 0)})
		case rerr != nil:
			rr.HarnessErrors = append(rr.HarnessErrors, fmt.Sprintf("the -race pass failed: %v: %s", rerr, headTail(stderr, 800, 400)))
		}
		results = append(results, rr)
	}
	m := report.Merge(results)
	m.Violations = append(m.Violations, crashes...)
	m.HarnessErrors = append(m.HarnessErrors, harness...)
	m.Bounds["workers"] = n
	m.Bounds["budget_s"] = budget(chk, tier).Seconds()
	return report.Conclude(rt, chk.Meta, tier, seed, m, time.Since(start).Seconds())
}

// raceWitness names the two accesses of the first race report (function names), so that the same
// race is recognised across runs.
func raceWitness(stderr string) string {
	var fns []string
	lines := strings.Split(stderr, "\n")
	for i, l := range lines {
		if strings.HasPrefix(l, "Write at") || strings.HasPrefix(l, "Read at") || strings.HasPrefix(l, "Previous write at") || strings.HasPrefix(l, "Previous read at") {
			// the first frame outside the Go runtime names the access
			fn := ""
			for j := i + 1; j < len(lines) && strings.TrimSpace(lines[j]) != ""; j++ {
				f := strings.TrimSpace(lines[j])
				if strings.HasPrefix(f, "/") || strings.HasPrefix(f, "runtime.") {
					continue
				}
				if k := strings.Index(f, "("); k > 0 {
					f = f[:k]
				}
				fn = f
				break
			}
			fns = append(fns, strings.ToLower(strings.Join(strings.Fields(l)[:2], " "))+" in "+fn)
			if len(fns) == 2 {
				break
			}
		}
	}
	return "race: " + strings.Join(fns, " / ")
}

func lastLine(path string) string {
	b, err := os.ReadFile(path)
	if err != nil {
		return ""
	}
	lines := strings.Split(strings.TrimRight(string(b), "\n"), "\n")
	return lines[len(lines)-1]
}

func firstLines(s string, n int) string {
	lines := strings.Split(strings.TrimSpace(s), "\n")
	if len(lines) > n {
		lines = lines[:n]
	}
	return strings.Join(lines, " | ")
}

func replay(chk *checks.Check, path string, seed int64) int {
	b, err := os.ReadFile(path)
	if err != nil {
		fmt.Println("cannot read replay file:", err)
		return 2
	}
	var v report.Violation
	if err := json.Unmarshal(b, &v); err != nil {
		fmt.Println("bad replay file:", err)
		return 2
	}
	if dn, err := os.OpenFile(os.DevNull, os.O_WRONLY, 0); err == nil {
		os.Stderr = dn
	}
	tier := v.Tier
	if tier == "" {
		tier = "quick"
	}
	if v.Clause == "crash" || v.Clause == "hang" {
		fmt.Printf("replay of %s: the recorded case killed / hung the worker process (%s); it is identified by the write-ahead log of a re-run, not by a choice vector. Re-run `./check %s %s` to see whether it still does. Case: %s\n", path, v.Clause, chk.Meta.Property, tier, v.Witness)
		return 2
	}
	ctx := report.NewCtx(chk.Meta.Property, tier, seed, 0, 1, time.Time{})
	ctx.Replay = &v
	chk.Run(ctx)
	res := ctx.Finish()
	for _, e := range res.HarnessErrors {
		fmt.Println("HARNESS-ERROR:", e)
	}
	if len(res.HarnessErrors) > 0 {
		return 2
	}
	// searches without choice vector report everything they find: keep the recorded witness only
	if v.Choices == nil {
		var same []report.Violation
		for _, nv := range res.Violations {
			if nv.Clause == v.Clause && nv.Witness == v.Witness {
				same = append(same, nv)
			}
		}
		res.Violations = same
	}
	if len(res.Violations) == 0 {
		fmt.Printf("replay of %s: the recorded case no longer fails (clause %s, witness %s)\n", path, v.Clause, v.Witness)
		return 0
	}
	for _, nv := range res.Violations {
		fmt.Printf("VIOLATION property=%s replay=%s\n  clause=%s witness=%s\n  %s\n", chk.Meta.Property, path, nv.Clause, nv.Witness, nv.Detail)
	}
	return 1
}
