// vrewrite rewrites the concurrency constructs of the repository's Go sources into calls of the
// controlled scheduler (package vsched) and writes a go build -overlay file. The repository is not
// touched: rewritten copies live in the output directory.
//
//	vrewrite -repo /repo -out .work/overlay-x [-points] [-antlr]
//
// Purely syntactic rules: go f(x) -> vsched.Go(func(){ f(x) }); c <- v -> vsched.Send(c, v);
// <-c -> vsched.Recv(c) (v, ok := <-c -> vsched.Recv2(c)); close(c) -> vsched.Close(c);
// select{...} -> switch vsched.SelectPoint(hasDefault, ops...) { case i: select{ <case i only> } ...
// case -1: <default body>; default: <the original select> (pass-through) }; time.Sleep -> vsched.Sleep;
// sync.Mutex / RWMutex / Once -> vsched types. With -points a vsched.Point("fn:<pkg>.<name>") is
// inserted at the entry of every function of the hand-written packages. With -antlr the mutex.go of
// the ANTLR runtime is replaced as well. sync.WaitGroup, sync.Pool, time.After / Now / Since are mapped to scheduler-aware equivalents; sync/atomic needs no
// rewriting. A construct the rewriter does not know (sync.Cond, reflect.Select, timers and tickers) aborts with
// exit status 2.
package main

import (
	"bytes"
	"encoding/json"
	"flag"
	"fmt"
	"go/ast"
	"go/format"
	"go/parser"
	"go/token"
	"os"
	"os/exec"
	"path/filepath"
	"sort"
	"strings"

	"golang.org/x/tools/go/ast/astutil"
)

const shim = "github.com/remieven/ysgo/verifx/vsched"

func sel(name string) ast.Expr {
	return &ast.SelectorExpr{X: ast.NewIdent("vsched"), Sel: ast.NewIdent(name)}
}
func call(name string, args ...ast.Expr) *ast.CallExpr {
	return &ast.CallExpr{Fun: sel(name), Args: args}
}

func die(format string, a ...any) {
	fmt.Fprintf(os.Stderr, "vrewrite: "+format+"\n", a...)
	os.Exit(2)
}

func rewriteSelect(s *ast.SelectStmt, orig *ast.SelectStmt) ast.Stmt {
	hasDefault := "false"
	var ops []ast.Expr
	var clauses []ast.Stmt
	var defaultBody []ast.Stmt
	idx := 0
	for _, c := range s.Body.List {
		cc := c.(*ast.CommClause)
		if cc.Comm == nil {
			hasDefault = "true"
			defaultBody = cc.Body
			continue
		}
		switch comm := cc.Comm.(type) {
		case *ast.SendStmt:
			ops = append(ops, call("SendOp", comm.Chan))
		case *ast.ExprStmt:
			ops = append(ops, call("RecvOp", comm.X.(*ast.UnaryExpr).X))
		case *ast.AssignStmt:
			ops = append(ops, call("RecvOp", comm.Rhs[0].(*ast.UnaryExpr).X))
		}
		inner := &ast.SelectStmt{Body: &ast.BlockStmt{List: []ast.Stmt{&ast.CommClause{Comm: cc.Comm, Body: cc.Body}}}}
		clauses = append(clauses, &ast.CaseClause{List: []ast.Expr{&ast.BasicLit{Kind: token.INT, Value: fmt.Sprint(idx)}}, Body: []ast.Stmt{inner}})
		idx++
	}
	clauses = append(clauses, &ast.CaseClause{List: []ast.Expr{&ast.UnaryExpr{Op: token.SUB, X: &ast.BasicLit{Kind: token.INT, Value: "1"}}}, Body: defaultBody})
	clauses = append(clauses, &ast.CaseClause{List: nil, Body: []ast.Stmt{orig}})
	args := append([]ast.Expr{ast.NewIdent(hasDefault)}, ops...)
	return &ast.SwitchStmt{Tag: call("SelectPoint", args...), Body: &ast.BlockStmt{List: clauses}}
}

type stats struct {
	Go, Send, Recv, Close, Select, Sleep, Sync, Points int
}

func cloneSelect(fset *token.FileSet, s *ast.SelectStmt) *ast.SelectStmt {
	// print and re-parse: a deep copy that shares nothing with the node that is rewritten
	var buf bytes.Buffer
	if err := format.Node(&buf, fset, s); err != nil {
		die("cannot print select: %v", err)
	}
	src := "package p\nfunc _() {\n" + buf.String() + "\n}\n"
	f, err := parser.ParseFile(token.NewFileSet(), "", src, 0)
	if err != nil {
		die("cannot re-parse select: %v", err)
	}
	return f.Decls[0].(*ast.FuncDecl).Body.List[0].(*ast.SelectStmt)
}

func rewriteFile(path, pkgLabel string, points bool, syncOnly bool) ([]byte, stats, bool) {
	fset := token.NewFileSet()
	af, err := parser.ParseFile(fset, path, nil, parser.ParseComments)
	if err != nil {
		die("%s: %v", path, err)
	}
	var st stats
	inSelectComm := map[ast.Node]bool{}
	origSelect := map[*ast.SelectStmt]*ast.SelectStmt{}
	timeName, syncName := "", ""
	for _, imp := range af.Imports {
		p := strings.Trim(imp.Path.Value, `"`)
		name := filepath.Base(p)
		if imp.Name != nil {
			name = imp.Name.Name
		}
		switch p {
		case "time":
			timeName = name
		case "sync":
			syncName = name
		}
		// sync/atomic needs no rewriting: under the cooperative scheduler atomic operations are plain
		// (sequentially consistent) memory operations
	}
	// pre-pass: remember the original text of every select and mark its communication clauses
	ast.Inspect(af, func(n ast.Node) bool {
		if s, ok := n.(*ast.SelectStmt); ok && !syncOnly {
			origSelect[s] = cloneSelect(fset, s)
			for _, cl := range s.Body.List {
				if cc := cl.(*ast.CommClause); cc.Comm != nil {
					ast.Inspect(cc.Comm, func(x ast.Node) bool {
						if x != nil {
							inSelectComm[x] = true
						}
						return true
					})
				}
			}
		}
		if r, ok := n.(*ast.RangeStmt); ok && !syncOnly {
			_ = r // ranging over a channel cannot be recognised syntactically; ysgo has none (checked by the scan below)
		}
		return true
	})
	astutil.Apply(af, nil, func(c *astutil.Cursor) bool {
		switch n := c.Node().(type) {
		case *ast.GoStmt:
			if syncOnly {
				return true
			}
			c.Replace(&ast.ExprStmt{X: call("Go", &ast.FuncLit{Type: &ast.FuncType{Params: &ast.FieldList{}}, Body: &ast.BlockStmt{List: []ast.Stmt{&ast.ExprStmt{X: n.Call}}}})})
			st.Go++
		case *ast.SendStmt:
			if !syncOnly && !inSelectComm[n] {
				c.Replace(&ast.ExprStmt{X: call("Send", n.Chan, n.Value)})
				st.Send++
			}
		case *ast.AssignStmt:
			// v, ok := <-c
			if !syncOnly && !inSelectComm[n] && len(n.Lhs) == 2 && len(n.Rhs) == 1 {
				if u, ok := n.Rhs[0].(*ast.CallExpr); ok {
					if s, ok := u.Fun.(*ast.SelectorExpr); ok && s.Sel.Name == "Recv" {
						if id, ok := s.X.(*ast.Ident); ok && id.Name == "vsched" {
							s.Sel.Name = "Recv2"
						}
					}
				}
			}
		case *ast.UnaryExpr:
			if !syncOnly && n.Op == token.ARROW && !inSelectComm[n] {
				c.Replace(call("Recv", n.X))
				st.Recv++
			}
		case *ast.CallExpr:
			if id, ok := n.Fun.(*ast.Ident); ok && id.Name == "close" && len(n.Args) == 1 && !syncOnly {
				c.Replace(call("Close", n.Args[0]))
				st.Close++
			}
			// reflect.Value.TryRecv / TrySend: non-blocking channel operations through reflection
			if se, ok := n.Fun.(*ast.SelectorExpr); ok && !syncOnly {
				if se.Sel.Name == "TryRecv" && len(n.Args) == 0 {
					c.Replace(call("TryRecv", se.X))
					st.Recv++
				} else if se.Sel.Name == "TrySend" && len(n.Args) == 1 {
					c.Replace(call("TrySend", se.X, n.Args[0]))
					st.Send++
				}
			}
		case *ast.SelectStmt:
			if !syncOnly {
				c.Replace(rewriteSelect(n, origSelect[n]))
				st.Select++
			}
		case *ast.SelectorExpr:
			id, ok := n.X.(*ast.Ident)
			if !ok {
				return true
			}
			if timeName != "" && id.Name == timeName && !syncOnly {
				switch n.Sel.Name {
				case "Sleep":
					c.Replace(sel("Sleep"))
					st.Sleep++
				case "After":
					c.Replace(sel("After"))
					st.Sleep++
				case "Now":
					c.Replace(sel("NowTime"))
					st.Sleep++
				case "Since":
					c.Replace(sel("Since"))
					st.Sleep++
				case "AfterFunc", "NewTimer", "NewTicker", "Tick":
					die("%s uses time.%s: not modelled by the scheduler", path, n.Sel.Name)
				}
			}
			if syncName != "" && id.Name == syncName {
				switch n.Sel.Name {
				case "Mutex", "RWMutex", "Once", "WaitGroup", "Pool", "Map", "OnceFunc", "OnceValue", "OnceValues":
					c.Replace(sel(n.Sel.Name))
					st.Sync++
				default:
					die("%s uses sync.%s: not modelled by the scheduler", path, n.Sel.Name)
				}
			}
			if id.Name == "reflect" && n.Sel.Name == "Select" {
				die("%s uses reflect.Select: not modelled by the scheduler", path)
			}
		}
		return true
	})
	if points && !syncOnly {
		ast.Inspect(af, func(n ast.Node) bool {
			if fd, ok := n.(*ast.FuncDecl); ok && fd.Body != nil {
				name := fd.Name.Name
				if fd.Recv != nil && len(fd.Recv.List) > 0 {
					var buf bytes.Buffer
					format.Node(&buf, fset, fd.Recv.List[0].Type)
					name = strings.TrimPrefix(buf.String(), "*") + "." + name
				}
				p := &ast.ExprStmt{X: call("Point", &ast.BasicLit{Kind: token.STRING, Value: fmt.Sprintf("%q", "fn:"+pkgLabel+"."+name)})}
				fd.Body.List = append([]ast.Stmt{p}, fd.Body.List...)
				st.Points++
			}
			return true
		})
	}
	changed := st != stats{}
	if !changed {
		return nil, st, false
	}
	astutil.AddImport(fset, af, shim)
	if syncName != "" && !astutil.UsesImport(af, "sync") {
		astutil.DeleteImport(fset, af, "sync")
	}
	if timeName != "" && !astutil.UsesImport(af, "time") {
		astutil.DeleteImport(fset, af, "time")
	}
	var buf bytes.Buffer
	if err := format.Node(&buf, fset, af); err != nil {
		die("%s: cannot print the rewritten file: %v", path, err)
	}
	return buf.Bytes(), st, true
}

func main() {
	repo := flag.String("repo", "/repo", "repository to rewrite")
	out := flag.String("out", "", "output directory")
	points := flag.Bool("points", false, "insert a scheduling point at every function entry of the hand-written packages")
	antlrFlag := flag.Bool("antlr", false, "replace the mutexes of the ANTLR runtime and the sync.Once of the generated recognisers")
	flag.Parse()
	if *out == "" {
		die("missing -out")
	}
	os.MkdirAll(*out, 0o755)
	overlay := map[string]string{}
	var report []string
	type pk struct {
		dir, label string
		generated  map[string]bool
	}
	// every package of the repository (directories holding non-test .go files), so that no channel
	// operation of the code under test escapes the scheduler
	generated := map[string]bool{"yarnspinner_lexer.go": true, "yarnspinner_parser.go": true, "yarnspinnerparser_listener.go": true, "yarnspinnerparser_base_listener.go": true}
	var pkgs []pk
	filepath.WalkDir(*repo, func(path string, d os.DirEntry, err error) error {
		if err != nil || !d.IsDir() {
			return nil
		}
		base := filepath.Base(path)
		if path != *repo && (strings.HasPrefix(base, ".") || base == "testdata" || base == "vendor" || base == "REFACTOR" || base == "MUTANT") {
			return filepath.SkipDir
		}
		files, _ := filepath.Glob(filepath.Join(path, "*.go"))
		has := false
		for _, f := range files {
			if !strings.HasSuffix(f, "_test.go") {
				has = true
			}
		}
		if !has {
			return nil
		}
		rel, _ := filepath.Rel(*repo, path)
		label := filepath.Base(rel)
		if rel == "." {
			label = "ysgo"
		}
		p := pk{dir: rel, label: label}
		if rel == filepath.Join("internal", "parser") {
			p.generated = generated
		}
		if rel == filepath.Join("internal", "testutils") {
			return nil
		}
		pkgs = append(pkgs, p)
		return nil
	})
	sort.Slice(pkgs, func(i, j int) bool { return pkgs[i].dir < pkgs[j].dir })
	total := stats{}
	for _, p := range pkgs {
		files, _ := filepath.Glob(filepath.Join(*repo, p.dir, "*.go"))
		sort.Strings(files)
		for _, f := range files {
			if strings.HasSuffix(f, "_test.go") {
				continue
			}
			gen := p.generated[filepath.Base(f)]
			if gen && !*antlrFlag {
				continue
			}
			src, st, changed := rewriteFile(f, p.label, *points && !gen, gen)
			if !changed {
				continue
			}
			dst := filepath.Join(*out, strings.ReplaceAll(filepath.Join(p.dir, filepath.Base(f)), "/", "__"))
			if err := os.WriteFile(dst, src, 0o644); err != nil {
				die("%v", err)
			}
			overlay[f] = dst
			report = append(report, fmt.Sprintf("%s: go=%d send=%d recv=%d close=%d select=%d sleep=%d sync=%d points=%d", filepath.Join(p.dir, filepath.Base(f)), st.Go, st.Send, st.Recv, st.Close, st.Select, st.Sleep, st.Sync, st.Points))
			total.Go += st.Go
			total.Send += st.Send
			total.Select += st.Select
			total.Sleep += st.Sleep
			total.Points += st.Points
			total.Sync += st.Sync
		}
	}
	if *antlrFlag {
		modcache, err := exec.Command("go", "env", "GOMODCACHE").Output()
		if err != nil {
			die("go env GOMODCACHE: %v", err)
		}
		mutex := filepath.Join(strings.TrimSpace(string(modcache)), "github.com/antlr4-go/antlr/v4@v4.13.1/mutex.go")
		if _, err := os.Stat(mutex); err != nil {
			die("ANTLR runtime not found in the module cache: %v", err)
		}
		src := "//go:build !antlr.nomutex\n\npackage antlr\n\nimport \"" + shim + "\"\n\n// Mutex and RWMutex delegate to the controlled scheduler.\ntype Mutex struct{ mu vsched.Mutex }\n\nfunc (m *Mutex) Lock()   { m.mu.Lock() }\nfunc (m *Mutex) Unlock() { m.mu.Unlock() }\n\ntype RWMutex struct{ mu vsched.RWMutex }\n\nfunc (m *RWMutex) Lock()    { m.mu.Lock() }\nfunc (m *RWMutex) Unlock()  { m.mu.Unlock() }\nfunc (m *RWMutex) RLock()   { m.mu.RLock() }\nfunc (m *RWMutex) RUnlock() { m.mu.RUnlock() }\n"
		dst := filepath.Join(*out, "antlr__mutex.go")
		os.WriteFile(dst, []byte(src), 0o644)
		overlay[mutex] = dst
		report = append(report, "antlr runtime mutex.go: Mutex and RWMutex delegated to vsched")
		// reset hook for the static data of the generated recognisers (cold-start exploration)
		reset := "package parser\n\n// VerifResetStaticData forgets the lazily built static data of the generated recognisers.\nfunc VerifResetStaticData() {\n\tzeroOf(&YarnSpinnerLexerLexerStaticData)\n\tzeroOf(&YarnSpinnerParserParserStaticData)\n}\n\nfunc zeroOf[T any](p *T) { var z T; *p = z }\n"
		dst = filepath.Join(*out, "parser__zz_verif_reset.go")
		os.WriteFile(dst, []byte(reset), 0o644)
		overlay[filepath.Join(*repo, "internal/parser", "zz_verif_reset.go")] = dst
	}
	// marker file in package ysgo
	var quoted []string
	for _, r := range report {
		quoted = append(quoted, fmt.Sprintf("\t\t%q,", r))
	}
	extraImport, extraInit := "", ""
	if *antlrFlag {
		extraImport = "\t\"github.com/remieven/ysgo/internal/parser\"\n"
		extraInit = "\tvsched.ResetStatic = parser.VerifResetStaticData\n"
	}
	marker := "package ysgo\n\nimport (\n" + extraImport + "\t\"" + shim + "\"\n)\n\nfunc init() {\n\tvsched.Rewritten = true\n" + extraInit + "\tvsched.RewrittenFiles = []string{\n" + strings.Join(quoted, "\n") + "\n\t}\n}\n"
	dst := filepath.Join(*out, "ysgo__zz_verif_marker.go")
	os.WriteFile(dst, []byte(marker), 0o644)
	overlay[filepath.Join(*repo, "zz_verif_marker.go")] = dst
	j, _ := json.MarshalIndent(map[string]any{"Replace": overlay}, "", " ")
	if err := os.WriteFile(filepath.Join(*out, "overlay.json"), j, 0o644); err != nil {
		die("%v", err)
	}
	if total.Go == 0 || total.Select == 0 {
		fmt.Fprintf(os.Stderr, "vrewrite: warning: no go statement / select found in %s\n", *repo)
	}
	fmt.Println(strings.Join(report, "\n"))
}
