// Package vsched is engine E4: a controlled cooperative scheduler. Code rewritten by cmd/vrewrite
// (and harness code) calls the hooks of this package instead of using go statements, channel
// operations, select, time.Sleep and sync primitives directly. While an execution is active
// (Run), threads are real goroutines that run one at a time; every hook is a scheduling point at
// which the explorer decides which enabled thread continues. While no execution is active every
// hook is a pass-through to the plain Go operation, so rewritten code behaves as the original.
package vsched

import (
	"fmt"
	"reflect"
	"runtime/debug"
	"strings"
	"sync"
	"time"
)

// Rewritten is set by a file that cmd/vrewrite adds to the rewritten package: it tells the checks
// that the binary was built with the overlay.
var Rewritten bool

// RewrittenFiles lists what the rewriter did (for the evidence).
var RewrittenFiles []string

// ResetStatic, when the overlay provides it, forgets the lazily built static data of the generated
// recognisers (cold-start exploration).
var ResetStatic func()

type opKind int

const (
	opStart opKind = iota
	opPoint
	opGo
	opSend
	opRecv
	opClose
	opSelect
	opSleep
	opLock
	opRLock
	opUnlock
	opRUnlock
	opOnce
	opWait
)

var kindNames = [...]string{"start", "point", "go", "send", "recv", "close", "select", "sleep", "lock", "rlock", "unlock", "runlock", "once", "wgwait"}

// Op is one case of a select.
type Op struct {
	Send bool
	Ch   any
}

// RecvOp and SendOp describe the cases of a rewritten select.
func RecvOp[T any](c <-chan T) Op { return Op{false, c} }
func SendOp[T any](c chan<- T) Op { return Op{true, c} }

type pending struct {
	kind       opKind
	label      string
	ch         any
	ops        []Op
	hasDefault bool
	wake       time.Duration
	result     int
	mu         *Mutex
	rw         *RWMutex
	once       *Once
	wg         *WaitGroup
}

type thread struct {
	id    int
	grant chan bool
	op    pending
	done  bool
	inAPI bool
	// rendezvous: granted as the passive side of an unbuffered channel operation: park right after it
	rendezvous bool
}

// Event is one granted operation.
type Event struct {
	Seq    int
	Thread int
	Kind   string
	Label  string
	Result int
	Chan   uintptr
	Clock  time.Duration
}

func (e Event) String() string {
	return fmt.Sprintf("t%d:%s", e.Thread, e.Kind)
}

type abortSentinel struct{}

// Exec is one controlled execution.
type Exec struct {
	threads []*thread
	cur     *thread
	parked  chan *thread
	choose  func(n int, label string) int
	Log     []Event
	Clock   time.Duration
	// Outcome: "" (host finished), "api-blocks", "deadlock", or "panic: ..." of any thread.
	Outcome     string
	Panics      []string
	Preemptions int
	Switches    int
	bound       int // preemption bound, <0 unbounded
	closed      map[uintptr]bool
	Points      int
	LeakedLocks int // locks still held by aborted threads at the end (forcibly released)
	hostDone    bool
	only        func(kind, label string) bool
	usedMu      []*Mutex
	evaluating  *thread // the thread whose enabledness is being computed (it is not its own partner)
	Rendezvous  int
	usedRW      []*RWMutex
	usedPools   []*Pool
}

var active *Exec

// Active tells whether an execution is running (hooks are scheduling points).
func Active() bool { return active != nil }

func chanID(ch any) uintptr {
	v := reflect.ValueOf(ch)
	if !v.IsValid() || v.Kind() != reflect.Chan || v.IsNil() {
		return 0
	}
	return v.Pointer()
}

func (e *Exec) ready(op Op) bool {
	v := reflect.ValueOf(op.Ch)
	if !v.IsValid() || v.IsNil() {
		return false
	}
	if op.Send {
		if e.closed[v.Pointer()] {
			return true // sending on a closed channel panics: that is an enabled (and observable) step
		}
		if v.Cap() == 0 {
			return e.partner(v.Pointer(), opRecv) != nil // unbuffered: a receiver must be parked in a blocking receive
		}
		return v.Len() < v.Cap()
	}
	if v.Len() > 0 || e.closed[v.Pointer()] {
		return true
	}
	return v.Cap() == 0 && e.partner(v.Pointer(), opSend) != nil // unbuffered: a sender is parked in its send
}

// partner returns a thread parked in a blocking send / receive on the unbuffered channel ch.
func (e *Exec) partner(ch uintptr, kind opKind) *thread {
	for _, t := range e.threads {
		if !t.done && t != e.evaluating && t.op.kind == kind && chanID(t.op.ch) == ch {
			return t
		}
	}
	return nil
}

func (e *Exec) enabled(t *thread) bool {
	e.evaluating = t
	defer func() { e.evaluating = nil }()
	switch t.op.kind {
	case opSend:
		return e.ready(Op{true, t.op.ch})
	case opRecv:
		return e.ready(Op{false, t.op.ch})
	case opSelect:
		if t.op.hasDefault {
			return true
		}
		for _, o := range t.op.ops {
			if e.ready(o) {
				return true
			}
		}
		return false
	case opSleep:
		return e.Clock >= t.op.wake
	case opLock:
		if t.op.mu != nil {
			return !t.op.mu.held
		}
		return !t.op.rw.writer && t.op.rw.readers == 0
	case opRLock:
		return !t.op.rw.writer
	case opOnce:
		return !t.op.once.running
	case opWait:
		return t.op.wg.n <= 0
	}
	return true
}

// Options configure Run.
type Options struct {
	Choose          func(n int, label string) int
	PreemptionBound int // <0: unbounded
	Watchdog        time.Duration
	// Only, if set, restricts the scheduling points to the operations it accepts (kind, label);
	// every other hook is executed at once without a context switch (sound for locks: a thread
	// is then never descheduled while it holds one).
	Only func(kind, label string) bool
}

// Run executes body as thread 0 (the host) under the scheduler and returns the execution record.
// It is not re-entrant.
func Run(o Options, body func()) (e *Exec) {
	if active != nil {
		panic("vsched.Run: an execution is already active")
	}
	e = &Exec{parked: make(chan *thread), choose: o.Choose, bound: o.PreemptionBound, closed: map[uintptr]bool{}, only: o.Only}
	if o.Watchdog == 0 {
		o.Watchdog = 60 * time.Second
	}
	active = e
	defer func() { active = nil }()
	e.spawn(body)
	var last *thread
	timer := time.NewTimer(o.Watchdog)
	defer timer.Stop()
	wait := func() *thread {
		select {
		case t := <-e.parked:
			return t
		case <-timer.C:
			panic(fmt.Sprintf("vsched: watchdog: a thread did not reach a scheduling point within %v (blocking outside the hooks?)", o.Watchdog))
		}
	}
	for {
		host := e.threads[0]
		if host.done {
			break
		}
		var en []*thread
		if last != nil && !last.done && e.enabled(last) {
			en = append(en, last)
		}
		for _, t := range e.threads {
			if !t.done && t != last && e.enabled(t) {
				en = append(en, t)
			}
		}
		if len(en) == 0 {
			if host.op.kind != opStart && host.inAPI {
				e.Outcome = "api-blocks"
			} else {
				e.Outcome = "deadlock"
			}
			break
		}
		k := 0
		if len(en) > 1 {
			lastEnabled := en[0] == last
			if lastEnabled && e.bound >= 0 && e.Preemptions >= e.bound {
				k = 0 // no preemption budget left: the running thread continues
			} else {
				k = e.choose(len(en), "sched")
				if k != 0 && lastEnabled {
					e.Preemptions++
				}
			}
		}
		t := en[k]
		if last != nil && t != last {
			e.Switches++
		}
		if t.op.kind == opSelect {
			var readyIdx []int
			for i, o := range t.op.ops {
				if e.ready(o) {
					readyIdx = append(readyIdx, i)
				}
			}
			switch len(readyIdx) {
			case 0:
				t.op.result = -1
			case 1:
				t.op.result = readyIdx[0]
			default:
				t.op.result = readyIdx[e.choose(len(readyIdx), "select-case")]
			}
		}
		ev := Event{Seq: len(e.Log), Thread: t.id, Kind: kindNames[t.op.kind], Label: t.op.label, Result: t.op.result, Chan: chanID(t.op.ch), Clock: e.Clock}
		if t.op.kind == opSelect && len(t.op.ops) > 0 {
			ev.Chan = chanID(t.op.ops[0].Ch)
		}
		e.Log = append(e.Log, ev)
		e.Points++
		// state changes that belong to the granted operation
		switch t.op.kind {
		case opLock:
			if t.op.mu != nil {
				t.op.mu.held = true
				e.usedMu = append(e.usedMu, t.op.mu)
			} else {
				t.op.rw.writer = true
				e.usedRW = append(e.usedRW, t.op.rw)
			}
		case opRLock:
			t.op.rw.readers++
			e.usedRW = append(e.usedRW, t.op.rw)
		case opOnce:
			if !t.op.once.done {
				t.op.once.running = true
			}
		}
		// unbuffered rendezvous: the operation granted to t completes against a thread parked in the
		// matching blocking operation; both run for the duration of the channel operation, the partner
		// parks again immediately after it
		var mate *thread
		e.evaluating = t
		switch t.op.kind {
		case opSelect:
			if t.op.result >= 0 {
				o := t.op.ops[t.op.result]
				if v := reflect.ValueOf(o.Ch); v.IsValid() && !v.IsNil() && v.Cap() == 0 && v.Len() == 0 && !e.closed[v.Pointer()] {
					if o.Send {
						mate = e.partner(v.Pointer(), opRecv)
					} else {
						mate = e.partner(v.Pointer(), opSend)
					}
				}
			}
		case opSend, opRecv:
			if v := reflect.ValueOf(t.op.ch); v.IsValid() && !v.IsNil() && v.Cap() == 0 && !e.closed[v.Pointer()] {
				if t.op.kind == opSend {
					mate = e.partner(v.Pointer(), opRecv)
				} else {
					mate = e.partner(v.Pointer(), opSend)
				}
			}
		}
		e.evaluating = nil
		e.cur = t
		if !timer.Stop() {
			select {
			case <-timer.C:
			default:
			}
		}
		timer.Reset(o.Watchdog)
		if mate != nil {
			e.Rendezvous++
			mate.rendezvous = true
			mate.grant <- true
			t.grant <- true
			a, b := wait(), wait()
			// one of the two parks is the partner's stop right after the channel operation
			if a == mate {
				last = b
			} else {
				last = a
			}
			e.cur = nil
			continue
		}
		t.grant <- true
		last = wait()
	}
	e.hostDone = true
	// unwind the remaining threads
	for _, t := range e.threads {
		if !t.done {
			e.cur = t
			t.grant <- false
			wait()
		}
	}
	// no lock state may leak into the next execution (a thread aborted inside a critical section)
	for _, m := range e.usedMu {
		if m.held {
			m.held = false
			e.LeakedLocks++
		}
	}
	for _, m := range e.usedRW {
		if m.writer || m.readers != 0 {
			m.writer, m.readers = false, 0
			e.LeakedLocks++
		}
	}
	// pooled objects do not survive into the next execution (every execution starts from the same state)
	for _, p := range e.usedPools {
		p.items = nil
	}
	return e
}

func (e *Exec) spawn(f func()) *thread {
	t := &thread{id: len(e.threads), grant: make(chan bool)}
	t.op = pending{kind: opStart, label: "start"}
	e.threads = append(e.threads, t)
	go func() {
		defer func() {
			if r := recover(); r != nil {
				if _, ok := r.(abortSentinel); !ok {
					msg := fmt.Sprintf("panic in thread %d: %v", t.id, r)
					e.Panics = append(e.Panics, msg+"\n"+firstFrames(string(debug.Stack())))
					if e.Outcome == "" {
						e.Outcome = msg
					}
				}
			}
			t.done = true
			e.parked <- t
		}()
		if !<-t.grant {
			panic(abortSentinel{})
		}
		f()
	}()
	return t
}

func firstFrames(s string) string {
	lines := strings.Split(s, "\n")
	var keep []string
	for _, l := range lines {
		if strings.Contains(l, "ysgo") && !strings.Contains(l, "vsched") {
			keep = append(keep, strings.TrimSpace(l))
		}
		if len(keep) >= 6 {
			break
		}
	}
	return strings.Join(keep, " <- ")
}

// hook announces an operation of the running thread and parks until it is granted.
func hook(p pending) *thread {
	t, _ := hook2(p)
	return t
}

// hook2 also tells whether the operation was a scheduling point (false: filtered out by Only).
func hook2(p pending) (*thread, bool) {
	e := active
	t := e.cur
	if e.hostDone {
		// the execution is being unwound (deferred unlocks of an aborted thread end up here)
		return t, true
	}
	if e.only != nil && !e.only(kindNames[p.kind], p.label) {
		switch p.kind {
		case opPoint, opLock, opRLock, opUnlock, opRUnlock, opOnce, opGo:
			// not a scheduling point in this exploration: the operation happens at once (no other
			// thread can be inside a critical section, since none is ever descheduled in one);
			// a new thread simply becomes runnable
			return t, false
		case opSend, opRecv, opClose, opSelect:
			// channel operations that can complete right now happen at once as well; one that
			// would block stays a scheduling point
			t.op = p
			if e.enabled(t) {
				if p.kind == opSelect {
					t.op.result = -1
					for i, o := range p.ops {
						if e.ready(o) {
							t.op.result = i
							break
						}
					}
				}
				return t, false
			}
		}
	}
	t.op = p
	e.parked <- t
	if !<-t.grant {
		panic(abortSentinel{})
	}
	return t, true
}

// Point is a plain scheduling point.
func Point(label string) {
	if active == nil {
		return
	}
	hook(pending{kind: opPoint, label: label})
}

// Go starts f as a new thread.
func Go(f func()) {
	if active == nil {
		go f()
		return
	}
	hook(pending{kind: opGo, label: "go"})
	active.spawn(f)
}

// Send sends v on c.
func Send[T any](c chan<- T, v T) {
	if active == nil {
		c <- v
		return
	}
	t := hook(pending{kind: opSend, label: "send", ch: c})
	c <- v // cannot block for long: there is room, a partner was granted together with this thread, or the channel is closed (panics like Go)
	afterRendezvous(t)
}

// afterRendezvous parks the passive side of an unbuffered channel operation again.
func afterRendezvous(t *thread) {
	if t != nil && t.rendezvous {
		t.rendezvous = false
		e := active
		t.op = pending{kind: opPoint, label: "after-rendezvous"}
		e.parked <- t
		if !<-t.grant {
			panic(abortSentinel{})
		}
	}
}

// Recv receives from c.
func Recv[T any](c <-chan T) T {
	if active == nil {
		return <-c
	}
	t := hook(pending{kind: opRecv, label: "recv", ch: c})
	v := <-c
	afterRendezvous(t)
	return v
}

// Recv2 is the two-result receive.
func Recv2[T any](c <-chan T) (T, bool) {
	if active == nil {
		v, ok := <-c
		return v, ok
	}
	t := hook(pending{kind: opRecv, label: "recv", ch: c})
	v, ok := <-c
	afterRendezvous(t)
	return v, ok
}

// Close closes c.
func Close[T any](c chan<- T) {
	if active == nil {
		close(c)
		return
	}
	hook(pending{kind: opClose, label: "close", ch: c})
	active.closed[chanID(c)] = true
	close(c)
}

// PassThrough is the result of SelectPoint while no execution is active: the rewritten code then
// runs the original select statement.
const PassThrough = -2

// SelectPoint decides a select: the index of the case to take, -1 for the default case.
func SelectPoint(hasDefault bool, ops ...Op) int {
	if active == nil {
		return PassThrough
	}
	t := hook(pending{kind: opSelect, label: "select", ops: ops, hasDefault: hasDefault})
	return t.op.result
}

// Sleep waits on the virtual clock.
func Sleep(d time.Duration) {
	if active == nil {
		time.Sleep(d)
		return
	}
	hook(pending{kind: opSleep, label: fmt.Sprintf("sleep %v", d), wake: active.Clock + d})
}

// ---- harness-side helpers (called from threads of an active execution) ----

// EnterAPI / LeaveAPI bracket a call of the API under test made by the running thread.
func EnterAPI() {
	if active != nil {
		active.cur.inAPI = true
	}
}
func LeaveAPI() {
	if active != nil {
		active.cur.inAPI = false
	}
}

// Advance moves the virtual clock.
func Advance(d time.Duration) {
	if active != nil {
		active.Clock += d
	}
}

// Now returns the virtual clock.
func Now() time.Duration {
	if active != nil {
		return active.Clock
	}
	return 0
}

// Choose lets harness code branch under the explorer.
func Choose(n int, label string) int {
	if active == nil || n <= 1 {
		return 0
	}
	return active.choose(n, label)
}

// OthersQuiet tells whether every other thread has finished or can never run again unless the
// calling thread acts (blocked on something, sleeping beyond the clock).
func OthersQuiet() bool {
	e := active
	if e == nil {
		return true
	}
	for _, t := range e.threads {
		if t != e.cur && !t.done && e.enabled(t) {
			return false
		}
	}
	return true
}

// Sleeping tells whether some thread sleeps beyond the current virtual time.
func Sleeping() bool {
	e := active
	if e == nil {
		return false
	}
	for _, t := range e.threads {
		if !t.done && t.op.kind == opSleep && e.Clock < t.op.wake {
			return true
		}
	}
	return false
}

// ThreadID returns the id of the running thread (0 = host).
func ThreadID() int {
	if active == nil {
		return -1
	}
	return active.cur.id
}

// ---- sync shims ----

// Mutex replaces sync.Mutex in rewritten code.
type Mutex struct {
	held bool
	real sync.Mutex // pass-through implementation
}

func (m *Mutex) Lock() {
	if active == nil {
		m.real.Lock()
		return
	}
	hook(pending{kind: opLock, label: "lock", mu: m})
}

func (m *Mutex) Unlock() {
	if active == nil {
		m.real.Unlock()
		return
	}
	if _, ok := hook2(pending{kind: opUnlock, label: "unlock"}); ok {
		m.held = false
	}
}

// RWMutex replaces sync.RWMutex.
type RWMutex struct {
	writer  bool
	readers int
	real    sync.RWMutex
}

func (m *RWMutex) Lock() {
	if active == nil {
		m.real.Lock()
		return
	}
	hook(pending{kind: opLock, label: "wlock", rw: m})
}
func (m *RWMutex) Unlock() {
	if active == nil {
		m.real.Unlock()
		return
	}
	if _, ok := hook2(pending{kind: opUnlock, label: "wunlock"}); ok {
		m.writer = false
	}
}
func (m *RWMutex) RLock() {
	if active == nil {
		m.real.RLock()
		return
	}
	hook(pending{kind: opRLock, label: "rlock", rw: m})
}
func (m *RWMutex) RUnlock() {
	if active == nil {
		m.real.RUnlock()
		return
	}
	if _, ok := hook2(pending{kind: opRUnlock, label: "runlock"}); ok {
		m.readers--
	}
}

// Once replaces sync.Once.
type Once struct {
	done    bool
	running bool
	real    sync.Once
}

func (o *Once) Do(f func()) {
	if active == nil {
		o.real.Do(func() { f(); o.done = true })
		return
	}
	if o.done {
		return
	}
	hook(pending{kind: opOnce, label: "once", once: o})
	if o.done {
		o.running = false
		return
	}
	defer func() { o.done, o.running = true, false }()
	f()
}

// Reset makes the Once fire again (cold-start exploration).
func (o *Once) Reset() { *o = Once{} }

// WaitGroup replaces sync.WaitGroup.
type WaitGroup struct {
	n    int
	real sync.WaitGroup
}

func (w *WaitGroup) Add(delta int) {
	if active == nil {
		w.real.Add(delta)
		return
	}
	hook(pending{kind: opPoint, label: "wg-add"})
	w.n += delta
}
func (w *WaitGroup) Done() { w.Add(-1) }
func (w *WaitGroup) Wait() {
	if active == nil {
		w.real.Wait()
		return
	}
	hook(pending{kind: opWait, label: "wg-wait", wg: w})
}

// Pool replaces sync.Pool. Get and Put are scheduling points. A pooled object may or may not still be there
// when Get is called (the runtime empties pools at will): with something pooled, Get asks the explorer whether
// it hands out the most recently pooled object (answer 0) or behaves as if the pool had been emptied (answer 1).
type Pool struct {
	New   func() any
	items []any
	real  sync.Pool
}

func (p *Pool) Get() any {
	if active == nil {
		p.real.New = p.New
		return p.real.Get()
	}
	hook(pending{kind: opPoint, label: "pool-get"})
	if n := len(p.items); n > 0 && active.choose(2, "pool-keeps-object") == 0 {
		x := p.items[n-1]
		p.items = p.items[:n-1]
		return x
	}
	if p.New != nil {
		return p.New()
	}
	return nil
}

func (p *Pool) Put(x any) {
	if active == nil {
		p.real.Put(x)
		return
	}
	hook(pending{kind: opPoint, label: "pool-put"})
	if x == nil {
		return
	}
	if len(p.items) == 0 {
		active.usedPools = append(active.usedPools, p)
	}
	p.items = append(p.items, x)
}

var timeBase = time.Date(2026, 1, 1, 0, 0, 0, 0, time.UTC)

// NowTime replaces time.Now: the virtual clock while an execution is active.
func NowTime() time.Time {
	if active == nil {
		return time.Now()
	}
	return timeBase.Add(active.Clock)
}

// Since replaces time.Since.
func Since(t time.Time) time.Duration { return NowTime().Sub(t) }

// After replaces time.After: a channel that receives once the virtual clock has advanced by d.
func After(d time.Duration) <-chan time.Time {
	if active == nil {
		return time.After(d)
	}
	ch := make(chan time.Time, 1)
	Go(func() {
		Sleep(d)
		Send(ch, NowTime())
	})
	return ch
}

// TryRecv replaces reflect.Value.TryRecv: a non-blocking receive, decided like a select with default.
func TryRecv(v reflect.Value) (reflect.Value, bool) {
	if active == nil {
		return v.TryRecv()
	}
	t := hook(pending{kind: opSelect, label: "tryrecv", ops: []Op{{Send: false, Ch: v.Interface()}}, hasDefault: true})
	if t.op.result < 0 {
		return reflect.Value{}, false // like reflect: the zero Value when the receive cannot finish without blocking
	}
	x, ok := v.Recv() // established ready by the scheduler (a parked unbuffered sender was granted with it)
	return x, ok
}

// TrySend replaces reflect.Value.TrySend.
func TrySend(v, x reflect.Value) bool {
	if active == nil {
		return v.TrySend(x)
	}
	t := hook(pending{kind: opSelect, label: "trysend", ops: []Op{{Send: true, Ch: v.Interface()}}, hasDefault: true})
	if t.op.result < 0 {
		return false
	}
	v.Send(x)
	return true
}

// OnceFunc, OnceValue and OnceValues replace the sync helpers of the same names: the first caller runs f at a
// scheduling point, every caller returns after it ran.
func OnceFunc(f func()) func() {
	o := new(Once)
	return func() { o.Do(f) }
}

func OnceValue[T any](f func() T) func() T {
	o := new(Once)
	var v T
	return func() T {
		o.Do(func() { v = f() })
		return v
	}
}

func OnceValues[T1, T2 any](f func() (T1, T2)) func() (T1, T2) {
	o := new(Once)
	var v1 T1
	var v2 T2
	return func() (T1, T2) {
		o.Do(func() { v1, v2 = f() })
		return v1, v2
	}
}

// Map replaces sync.Map: every operation is a scheduling point and then executes atomically (one thread runs at a
// time under the scheduler; without it the real sync.Map does the work).
type Map struct {
	real sync.Map
}

func (m *Map) Load(key any) (any, bool) { Point("syncmap-load"); return m.real.Load(key) }
func (m *Map) Store(key, value any)     { Point("syncmap-store"); m.real.Store(key, value) }
func (m *Map) Delete(key any)           { Point("syncmap-delete"); m.real.Delete(key) }
func (m *Map) Clear() {
	Point("syncmap-clear")
	m.real.Range(func(k, _ any) bool { m.real.Delete(k); return true })
}
func (m *Map) LoadOrStore(key, value any) (any, bool) {
	Point("syncmap-loadorstore")
	return m.real.LoadOrStore(key, value)
}
func (m *Map) LoadAndDelete(key any) (any, bool) {
	Point("syncmap-loadanddelete")
	return m.real.LoadAndDelete(key)
}
func (m *Map) Swap(key, value any) (any, bool) { Point("syncmap-swap"); return m.real.Swap(key, value) }
func (m *Map) CompareAndSwap(key, old, new any) bool {
	Point("syncmap-cas")
	return m.real.CompareAndSwap(key, old, new)
}
func (m *Map) CompareAndDelete(key, old any) bool {
	Point("syncmap-cad")
	return m.real.CompareAndDelete(key, old)
}

// Range visits a copy of the entries taken at one scheduling point; f runs outside of it and may block.
func (m *Map) Range(f func(key, value any) bool) {
	Point("syncmap-range")
	type kv struct{ k, v any }
	var all []kv
	m.real.Range(func(k, v any) bool { all = append(all, kv{k, v}); return true })
	for _, e := range all {
		if !f(e.k, e.v) {
			return
		}
	}
}
