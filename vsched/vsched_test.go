package vsched_test

import (
	"fmt"
	"reflect"
	"sort"
	"strings"
	"testing"
	"time"

	"github.com/remieven/ysgo/verifx/internal/explore"
	"github.com/remieven/ysgo/verifx/vsched"
)

// exploreAll runs body under every schedule within the preemption bound and returns the multiset
// of observations.
func exploreAll(t *testing.T, bound int, body func() string) (map[string]int, explore.Stats) {
	t.Helper()
	out := map[string]int{}
	st := explore.Run(explore.Options{Budget: -1}, func(c *explore.Chooser) {
		var obs string
		ex := vsched.Run(vsched.Options{Choose: c.Choose, PreemptionBound: bound}, func() { obs = body() })
		if ex.Outcome != "" {
			obs = "<" + strings.SplitN(ex.Outcome, "\n", 2)[0] + ">"
		}
		out[obs]++
	})
	return out, st
}

func keys(m map[string]int) []string {
	var k []string
	for s := range m {
		k = append(k, s)
	}
	sort.Strings(k)
	return k
}

// the classic lost update: both outcomes must be found; without preemptions only the serial one
func lostUpdate() string {
	x := 0
	var wg vsched.WaitGroup
	wg.Add(2)
	for i := 0; i < 2; i++ {
		vsched.Go(func() {
			v := x
			vsched.Point("between read and write")
			x = v + 1
			wg.Done()
		})
	}
	wg.Wait()
	return fmt.Sprint(x)
}

func TestLostUpdateFound(t *testing.T) {
	got, st := exploreAll(t, -1, lostUpdate)
	if !reflect.DeepEqual(keys(got), []string{"1", "2"}) {
		t.Fatalf("unbounded: outcomes %v, want 1 and 2 (%d schedules)", got, st.Leaves)
	}
	got, _ = exploreAll(t, 0, lostUpdate)
	if !reflect.DeepEqual(keys(got), []string{"2"}) {
		t.Fatalf("bound 0: outcomes %v, want only the serial outcome 2", got)
	}
	got, _ = exploreAll(t, 1, lostUpdate)
	if !reflect.DeepEqual(keys(got), []string{"1", "2"}) {
		t.Fatalf("bound 1: outcomes %v, want 1 and 2", got)
	}
}

// every interleaving of the labelled steps of two threads is produced, exactly the C(2k,k) ones
func TestAllInterleavings(t *testing.T) {
	const k = 3
	body := func() string {
		var order []string
		var wg vsched.WaitGroup
		wg.Add(2)
		for _, name := range []string{"a", "b"} {
			name := name
			vsched.Go(func() {
				for i := 0; i < k; i++ {
					vsched.Point("step")
					order = append(order, name)
				}
				wg.Done()
			})
		}
		wg.Wait()
		return strings.Join(order, "")
	}
	got, st := exploreAll(t, -1, body)
	want := map[string]bool{}
	var rec func(s string, a, b int)
	rec = func(s string, a, b int) {
		if a == k && b == k {
			want[s] = true
			return
		}
		if a < k {
			rec(s+"a", a+1, b)
		}
		if b < k {
			rec(s+"b", a, b+1)
		}
	}
	rec("", 0, 0)
	if len(want) != 20 {
		t.Fatal("reference broken")
	}
	for s := range want {
		if got[s] == 0 {
			t.Fatalf("interleaving %s never produced (%d schedules, %d distinct)", s, st.Leaves, len(got))
		}
	}
	for s := range got {
		if !want[s] {
			t.Fatalf("impossible observation %q", s)
		}
	}
}

// lock order inversion: the deadlocking schedule is found and reported as such; with a consistent
// order no schedule deadlocks
func TestDeadlockDetection(t *testing.T) {
	run := func(inverted bool) map[string]int {
		got, _ := exploreAll(t, -1, func() string {
			var a, b vsched.Mutex
			var wg vsched.WaitGroup
			wg.Add(2)
			vsched.Go(func() { a.Lock(); b.Lock(); b.Unlock(); a.Unlock(); wg.Done() })
			vsched.Go(func() {
				if inverted {
					b.Lock()
					a.Lock()
					a.Unlock()
					b.Unlock()
				} else {
					a.Lock()
					b.Lock()
					b.Unlock()
					a.Unlock()
				}
				wg.Done()
			})
			wg.Wait()
			return "ok"
		})
		return got
	}
	if got := run(true); got["<deadlock>"] == 0 || got["ok"] == 0 {
		t.Fatalf("inverted lock order: outcomes %v, want both ok and deadlock", got)
	}
	if got := run(false); got["<deadlock>"] != 0 || got["ok"] == 0 {
		t.Fatalf("consistent lock order: outcomes %v, want only ok", got)
	}
}

// mutual exclusion of the Mutex shim: no schedule lets two threads into the critical section
func TestMutexExcludes(t *testing.T) {
	got, st := exploreAll(t, -1, func() string {
		var m vsched.Mutex
		var wg vsched.WaitGroup
		inside, worst := 0, 0
		wg.Add(3)
		for i := 0; i < 3; i++ {
			vsched.Go(func() {
				m.Lock()
				inside++
				if inside > worst {
					worst = inside
				}
				vsched.Point("in critical section")
				inside--
				m.Unlock()
				wg.Done()
			})
		}
		wg.Wait()
		return fmt.Sprint(worst)
	})
	if !reflect.DeepEqual(keys(got), []string{"1"}) {
		t.Fatalf("outcomes %v over %d schedules", got, st.Leaves)
	}
	if st.Leaves < 6 {
		t.Fatalf("only %d schedules: the critical sections were not permuted", st.Leaves)
	}
}

// an unbuffered send completes only against a receiver; a buffered one does not wait
func TestChannelSemantics(t *testing.T) {
	got, _ := exploreAll(t, -1, func() string {
		ch := make(chan int)
		var log []string
		vsched.Go(func() {
			log = append(log, "before-send")
			vsched.Send(ch, 7)
			log = append(log, "after-send")
		})
		vsched.Point("host waits a bit")
		log = append(log, "before-recv")
		v := vsched.Recv(ch)
		log = append(log, fmt.Sprint("got", v))
		return strings.Join(log, ",")
	})
	for s := range got {
		if strings.Index(s, "after-send") >= 0 && strings.Index(s, "after-send") < strings.Index(s, "before-recv") {
			t.Fatalf("unbuffered send completed before the receiver arrived: %s", s)
		}
		if !strings.Contains(s, "got7") {
			t.Fatalf("value lost: %s", s)
		}
	}
	if len(got) < 2 {
		t.Fatalf("only %d distinct observations: %v", len(got), got)
	}
	// nobody ever receives: the host blocks -> deadlock, never a hang of the test
	got, _ = exploreAll(t, -1, func() string {
		ch := make(chan int)
		vsched.Send(ch, 1)
		return "sent"
	})
	if !reflect.DeepEqual(keys(got), []string{"<deadlock>"}) {
		t.Fatalf("send without receiver: %v", got)
	}
	got, _ = exploreAll(t, -1, func() string {
		ch := make(chan int, 1)
		vsched.Send(ch, 1)
		return "sent"
	})
	if !reflect.DeepEqual(keys(got), []string{"sent"}) {
		t.Fatalf("buffered send: %v", got)
	}
}

// select: every ready case is explored, default only when nothing is ready
func TestSelect(t *testing.T) {
	got, _ := exploreAll(t, -1, func() string {
		a, b := make(chan int, 1), make(chan int, 1)
		a <- 1
		b <- 2
		switch vsched.SelectPoint(true, vsched.RecvOp(a), vsched.RecvOp(b)) {
		case 0:
			return "a"
		case 1:
			return "b"
		default:
			return "default"
		}
	})
	if !reflect.DeepEqual(keys(got), []string{"a", "b"}) {
		t.Fatalf("both ready: %v", got)
	}
	got, _ = exploreAll(t, -1, func() string {
		a := make(chan int, 1)
		if vsched.SelectPoint(true, vsched.RecvOp(a)) == -1 {
			return "default"
		}
		return "a"
	})
	if !reflect.DeepEqual(keys(got), []string{"default"}) {
		t.Fatalf("nothing ready: %v", got)
	}
}

// the virtual clock: a sleeper never wakes before its time, and does wake once the clock passed it
func TestVirtualClock(t *testing.T) {
	got, _ := exploreAll(t, -1, func() string {
		woke, started := time.Duration(-1), time.Duration(-1)
		done := make(chan bool, 1)
		vsched.Go(func() {
			started = vsched.Now()
			vsched.Sleep(10 * time.Millisecond)
			woke = vsched.Now()
			vsched.Send(done, true)
		})
		vsched.Point("p")
		early := woke >= 0
		vsched.Advance(4 * time.Millisecond)
		vsched.Point("p")
		early = early || woke >= 0
		vsched.Advance(5 * time.Millisecond)
		vsched.Point("p")
		early = early || woke >= 0
		for i := 0; i < 4; i++ { // the sleeper may start late: poll with a horizon
			if vsched.SelectPoint(true, vsched.RecvOp(done)) == 0 {
				<-done
				return fmt.Sprint(early, woke-started >= 10*time.Millisecond)
			}
			vsched.Advance(10 * time.Millisecond)
		}
		return "horizon"
	})
	if !reflect.DeepEqual(keys(got), []string{"false true", "horizon"}) {
		t.Fatalf("outcomes %v", got)
	}
	// a sleeper beyond the clock with nobody to advance it is a deadlock, not a hang
	got, _ = exploreAll(t, -1, func() string {
		vsched.Sleep(time.Second)
		return "woke"
	})
	if !reflect.DeepEqual(keys(got), []string{"<deadlock>"}) {
		t.Fatalf("sleep without advance: %v", got)
	}
}

// the same choices give the same execution, event for event
func TestReplayIsDeterministic(t *testing.T) {
	type rec struct {
		choices []int
		log     string
	}
	var recs []rec
	body := func() {
		var m vsched.Mutex
		ch := make(chan int)
		var wg vsched.WaitGroup
		wg.Add(2)
		vsched.Go(func() { m.Lock(); vsched.Send(ch, 1); m.Unlock(); wg.Done() })
		vsched.Go(func() { vsched.Recv(ch); m.Lock(); m.Unlock(); wg.Done() })
		wg.Wait()
	}
	logOf := func(ex *vsched.Exec) string {
		var b strings.Builder
		for _, e := range ex.Log {
			fmt.Fprintf(&b, "%d:%s:%s:%d;", e.Thread, e.Kind, e.Label, e.Result)
		}
		return b.String() + ex.Outcome
	}
	explore.Run(explore.Options{Budget: -1}, func(c *explore.Chooser) {
		ex := vsched.Run(vsched.Options{Choose: c.Choose, PreemptionBound: -1}, body)
		recs = append(recs, rec{c.Choices(), logOf(ex)})
	})
	if len(recs) < 4 {
		t.Fatalf("only %d schedules", len(recs))
	}
	seen := map[string]bool{}
	for _, r := range recs {
		if seen[r.log] {
			t.Fatalf("two different choice vectors gave the same execution %s", r.log)
		}
		seen[r.log] = true
		for i := 0; i < 2; i++ {
			explore.Run(explore.Options{Budget: -1, Fixed: r.choices}, func(c *explore.Chooser) {
				ex := vsched.Run(vsched.Options{Choose: c.Choose, PreemptionBound: -1}, body)
				if got := logOf(ex); got != r.log {
					t.Fatalf("replay of %v diverged:\n got %s\nwant %s", r.choices, got, r.log)
				}
			})
		}
	}
}

// a panic in any thread is reported, attributed, and does not take the process down
func TestPanicIsAnOutcome(t *testing.T) {
	got, _ := exploreAll(t, -1, func() string {
		done := make(chan bool, 1)
		vsched.Go(func() {
			defer func() { done <- true }()
			var m map[string]int
			m["x"] = 1
		})
		vsched.Recv(done)
		return "host finished"
	})
	for s := range got {
		if !strings.Contains(s, "panic in thread 1") {
			t.Fatalf("outcomes %v", got)
		}
	}
}

// Once: the function runs exactly once under every schedule and every caller returns after it ran
func TestOnce(t *testing.T) {
	got, st := exploreAll(t, -1, func() string {
		var o vsched.Once
		var wg vsched.WaitGroup
		runs, sawUnfinished := 0, false
		finished := false
		wg.Add(2)
		for i := 0; i < 2; i++ {
			vsched.Go(func() {
				o.Do(func() {
					runs++
					vsched.Point("inside once")
					finished = true
				})
				if !finished {
					sawUnfinished = true
				}
				wg.Done()
			})
		}
		wg.Wait()
		return fmt.Sprint(runs, sawUnfinished)
	})
	if !reflect.DeepEqual(keys(got), []string{"1 false"}) {
		t.Fatalf("outcomes %v over %d schedules", got, st.Leaves)
	}
}

// Pool: both behaviours of a pool (object kept / pool emptied) are explored, nothing leaks between executions
func TestPool(t *testing.T) {
	var pool = vsched.Pool{New: func() any { return new(int) }}
	got, _ := exploreAll(t, -1, func() string {
		a := pool.Get().(*int)
		first := *a
		*a = 7
		pool.Put(a)
		b := pool.Get().(*int)
		return fmt.Sprint(first, *b)
	})
	if !reflect.DeepEqual(keys(got), []string{"0 0", "0 7"}) {
		t.Fatalf("outcomes %v", got)
	}
}

// OnceValue and Map: the value is computed once under every schedule; a check-then-store on a Map by two threads shows
// both outcomes (the lost update is a schedule of the explored space, every Map operation being a scheduling point)
func TestOnceValueAndMap(t *testing.T) {
	got, st := exploreAll(t, -1, func() string {
		computed := 0
		get := vsched.OnceValue(func() int { computed++; vsched.Point("computing"); return 7 })
		var m vsched.Map
		var wg vsched.WaitGroup
		wg.Add(2)
		sum := 0
		for i := 0; i < 2; i++ {
			vsched.Go(func() {
				sum += get()
				n := 0
				if v, ok := m.Load("k"); ok {
					n = v.(int)
				}
				m.Store("k", n+1)
				wg.Done()
			})
		}
		wg.Wait()
		v, _ := m.Load("k")
		return fmt.Sprint(computed, sum, v)
	})
	if !reflect.DeepEqual(keys(got), []string{"1 14 1", "1 14 2"}) {
		t.Fatalf("outcomes %v over %d schedules", got, st.Leaves)
	}
}
