#!/bin/bash
# Builds the framework offline from files on disk (run once after a fresh restore, cwd /verif).
cd "$(dirname "$0")" || exit 2
export GOFLAGS=-mod=mod GOPROXY=off GOSUMDB=off GOTOOLCHAIN=local GODEBUG=goindex=0
mkdir -p .work/bin evidence replays
go build -o .work/bin/vcheck-default ./cmd/vcheck || { echo "setup: harness build failed"; exit 2; }
# pre-build the scheduler-overlay binaries and the -race binary of the schedule checks (the checks rebuild them
# incrementally from the current /repo sources on every run)
VERIF_BUILD_ONLY=1 ./check C10 quick || { echo "setup: building the C10 overlay / race binaries failed"; exit 2; }
VERIF_BUILD_ONLY=1 ./check C18 quick || { echo "setup: building the C18 overlay binaries failed"; exit 2; }
echo "setup ok: $(.work/bin/vcheck-default list | tr '\n' ' ')"
