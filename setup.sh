#!/bin/bash
# Builds the framework offline from files on disk (run once after a fresh restore, cwd /verif).
cd "$(dirname "$0")" || exit 2
export GOFLAGS=-mod=mod GOPROXY=off GOSUMDB=off GOTOOLCHAIN=local GODEBUG=goindex=0
mkdir -p .work/bin evidence replays
go build -o .work/bin/vcheck-default ./cmd/vcheck || { echo "setup: harness build failed"; exit 2; }
if [ -x tools/setup_extra.sh ]; then tools/setup_extra.sh || exit 2; fi
echo "setup ok: $(.work/bin/vcheck-default list | tr '\n' ' ')"
